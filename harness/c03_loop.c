/* C03 (second part) — blocking loop vs dispatch: the same program driven through m_ctx_loop() (environment acting inside the
 * blocking poll) and through m_ctx_dispatch() calls must produce the same per-module deliveries and the same return code.
 * Exhaustive over programs: every sequence of <= N environment/user steps from a 7-letter alphabet x every choice of <= R
 * scripted handler reactions (quit / stop self / stop other / pause other / leave errno / tell other, at the 1st or 2nd event).
 * Steps are taken only when the loop is idle (nothing ready), in both modes.  In-process, virtual time (shim), ASan.
 *   c03_loop --steps N --reactions R --shard i/n [--replay <prog>] */
#define _GNU_SOURCE
#include <stdio.h>
#include <stdlib.h>
#include <string.h>
#include <stdint.h>
#include <errno.h>
#include <unistd.h>
#include <fcntl.h>
#include <time.h>
#include <sys/wait.h>
#include <sys/mman.h>
#include "../engine/shim.h"
#include <module/mod.h>
#include <module/ctx.h>
#include <module/mem/mem.h>

enum { S_TELL_AB, S_TELL_BA, S_TELL_AA, S_PUB, S_RDY_A, S_RDY_B, S_ADV, NSTEP };
static const char *STEPN[] = { "tell(A->B)", "tell(B->A)", "tell(A->A)", "publish(A,'t')", "make_readable(fdA)", "make_readable(fdB)", "advance(5ms)" };
enum { R_QUIT, R_STOP_SELF, R_STOP_OTHER, R_PAUSE_OTHER, R_ERRNO, R_TELL_OTHER, NREACT };
static const char *REACTN[] = { "quit(7)", "stop self", "stop other", "pause other", "leave errno=ENOENT", "tell other" };
typedef struct { int mod, at, act; } react_t;
typedef struct { int nsteps; uint8_t steps[8]; int nreact; react_t react[2]; } prog_t;

#define MAXLOG 64
typedef struct { uint32_t ev[MAXLOG]; int n; int stops, starts; } mlog_t;
typedef struct { mlog_t m[2]; int ret; int blocked_quit; int evals; } result_t;

static m_mod_t *H[2]; static int UFD[2][2]; static char PAY[8]; static char UPS[2], UPF[2], UPT[2];
static mlog_t *LOG; static const prog_t *P; static int nevt[2]; static int quit_req;
static int step_pos;
static long n_runs, n_progs, n_viol;
static prog_t *inflight;      /* shared with the parent: program being executed (crash attribution) */

static void quiet(const m_mod_t *m, const char *f, va_list a) { (void)m; (void)f; (void)a; }
static bool on_start(m_mod_t *m) { int i = m == H[1]; LOG[i].starts++; return true; }
static void on_stop(m_mod_t *m) { int i = m == H[1]; LOG[i].stops++; }
static void on_evt(m_mod_t *m, const m_queue_t *const evts) {
    int i = m == H[1];
    m_itr_foreach(evts, {
        m_evt_t *e = m_itr_get(m_itr); uint32_t code = 0;
        if (e->type == M_SRC_TYPE_PS) code = 0x1000 | ((e->ps_evt->data ? (uint32_t)((const char *)e->ps_evt->data - PAY) : 0xf) << 4) | (e->ps_evt->sender == H[1]) | ((e->userdata == &UPS[i]) << 1) | ((e->ps_evt->topic != NULL) << 2);
        else if (e->type == M_SRC_TYPE_FD) { char c; code = 0x2000 | (e->userdata == &UPF[i]); if (read(e->fd_evt->fd, &c, 1) != 1) code |= 0x800; }
        else if (e->type == M_SRC_TYPE_TMR) code = 0x3000 | (e->userdata == &UPT[i]);
        else code = 0x9000 | e->type;
        if (LOG[i].n < MAXLOG) LOG[i].ev[LOG[i].n++] = code;
        nevt[i]++;
        for (int r = 0; r < P->nreact; r++) if (P->react[r].mod == i && P->react[r].at == nevt[i]) {
            switch (P->react[r].act) {
            case R_QUIT: if (m_ctx_quit(7) == 0) quit_req = 7; break;
            case R_STOP_SELF: m_mod_stop(H[i]); break;
            case R_STOP_OTHER: m_mod_stop(H[!i]); break;
            case R_PAUSE_OTHER: m_mod_pause(H[!i]); break;
            case R_ERRNO: errno = ENOENT; break;
            case R_TELL_OTHER: m_mod_ps_tell(H[i], H[!i], &PAY[6 + i], 0); break;
            }
        }
    });
}

static int any_running(void) { return m_mod_is(H[0], M_MOD_RUNNING) || m_mod_is(H[1], M_MOD_RUNNING); }

static void do_step(int s) {
    char c = 'x';
    switch (s) {
    case S_TELL_AB: m_mod_ps_tell(H[0], H[1], &PAY[0], 0); break;
    case S_TELL_BA: m_mod_ps_tell(H[1], H[0], &PAY[1], 0); break;
    case S_TELL_AA: m_mod_ps_tell(H[0], H[0], &PAY[2], 0); break;
    case S_PUB: m_mod_ps_publish(H[0], "t", &PAY[3], 0); break;
    case S_RDY_A: if (__real_write(UFD[0][1], &c, 1) != 1) abort(); break;
    case S_RDY_B: if (__real_write(UFD[1][1], &c, 1) != 1) abort(); break;
    case S_ADV: shim_advance(5000000ull); break;
    }
}
/* environment turn of the blocking loop: next step, or (nothing left) a quit so that the loop can be left */
static int idle_quit;
static int env_turn(void) {
    if (step_pos < P->nsteps) { do_step(P->steps[step_pos++]); return 1; }
    if (!idle_quit) { idle_quit = 1; if (m_ctx_quit(99) == 0 && !quit_req) quit_req = 99; shim_inject_epoll_errno = EINTR; return 1; }
    return 0;
}

static void setup(void) {
    shim_reset();
    static const m_mod_hook_t hk = { on_start, NULL, on_evt, on_stop };
    if (m_ctx_register("c", M_CTX_PERSIST, NULL)) abort();
    m_ctx_set_logger(quiet);
    m_mod_register("A", &H[0], &hk, 0, NULL); m_mod_register("B", &H[1], &hk, 0, NULL);
    for (int i = 0; i < 2; i++) {
        if (__real_pipe(UFD[i])) abort(); fcntl(UFD[i][0], F_SETFL, O_NONBLOCK);
        shim_user_fd(UFD[i][0], 0);
        m_mod_ps_subscribe(H[i], "t", 0, &UPS[i]);
        m_mod_src_register_fd(H[i], UFD[i][0], 0, &UPF[i]);
        m_src_tmr_t t = { CLOCK_MONOTONIC, (i ? 10000000ull : 5000000ull) };
        m_mod_src_register_tmr(H[i], &t, i ? M_SRC_ONESHOT : 0, &UPT[i]);
    }
    nevt[0] = nevt[1] = 0; quit_req = 0; step_pos = 0; idle_quit = 0;
}
static void teardown(void) {
    m_ctx_deregister();
    for (int i = 0; i < 2; i++) { if (H[i]) m_mem_unref(H[i]); H[i] = NULL; __real_close(UFD[i][0]); __real_close(UFD[i][1]); shim_user_fd_forget(UFD[i][0]); }
}

static void run_loop(const prog_t *p, result_t *r) {
    memset(r, 0, sizeof *r); P = p; LOG = r->m; setup();
    shim_env_turn = env_turn;
    r->ret = m_ctx_loop();
    shim_env_turn = NULL; r->blocked_quit = idle_quit;
    teardown();
}
static void run_dispatch(const prog_t *p, result_t *r) {
    memset(r, 0, sizeof *r); P = p; LOG = r->m; setup();
    int rc = m_ctx_dispatch();                       /* loop start */
    if (rc) { r->ret = 1000 + rc; teardown(); return; }
    for (int guard = 0; guard < 400; guard++) {
        if (quit_req || !any_running()) { r->ret = m_ctx_dispatch(); break; }      /* the call that stops the loop */
        rc = m_ctx_dispatch();
        if (rc < 0) { continue; }                    /* the library asked itself to quit (real poll failure): next call stops */
        if (rc == 0) {                               /* idle: the environment acts */
            if (quit_req || !any_running()) continue;
            if (step_pos < p->nsteps) do_step(p->steps[step_pos++]);
            else if (!idle_quit) { idle_quit = 1; if (m_ctx_quit(99) == 0 && !quit_req) quit_req = 99; }
        }
    }
    r->blocked_quit = idle_quit;
    teardown();
}

static void fmt_prog(const prog_t *p, char *b, size_t cap) {
    size_t q = 0; q += snprintf(b + q, cap - q, "[");
    for (int i = 0; i < p->nsteps; i++) q += snprintf(b + q, cap - q, "%s\"%s\"", i ? "," : "", STEPN[p->steps[i]]);
    for (int i = 0; i < p->nreact; i++) q += snprintf(b + q, cap - q, "%s\"reaction: %s at its event #%d: %s\"", (i || p->nsteps) ? "," : "", p->react[i].mod ? "B" : "A", p->react[i].at, REACTN[p->react[i].act]);
    snprintf(b + q, cap - q, "]");
}
static void prog_hex(const prog_t *p, char *b) {
    int q = sprintf(b, "%d", p->nsteps); for (int i = 0; i < p->nsteps; i++) q += sprintf(b + q, ".%d", p->steps[i]);
    q += sprintf(b + q, "r%d", p->nreact); for (int i = 0; i < p->nreact; i++) q += sprintf(b + q, ".%d.%d.%d", p->react[i].mod, p->react[i].at, p->react[i].act);
}
static int parse_prog(const char *s, prog_t *p) {
    memset(p, 0, sizeof *p); char *e; p->nsteps = strtol(s, &e, 10);
    for (int i = 0; i < p->nsteps; i++) { if (*e != '.') return -1; p->steps[i] = strtol(e + 1, &e, 10); }
    if (*e != 'r') return -1; p->nreact = strtol(e + 1, &e, 10);
    for (int i = 0; i < p->nreact; i++) { if (*e != '.') return -1; p->react[i].mod = strtol(e + 1, &e, 10); p->react[i].at = strtol(e + 1, &e, 10); p->react[i].act = strtol(e + 1, &e, 10); }
    return 0;
}
static void report(const prog_t *p, const char *rule, const char *sig, const char *detail) {
    static char hb[1200], hx[200]; char esc[400]; int q = 0;
    fmt_prog(p, hb, sizeof hb); prog_hex(p, hx);
    for (const char *c = detail; *c && q < 390; c++) { if (*c == '"' || *c == '\\') esc[q++] = '\\'; esc[q++] = *c; } esc[q] = 0;
    printf("VIOL {\"harness\":\"c03_loop\",\"config\":\"loop-vs-dispatch\",\"rule\":\"%s\",\"sig\":\"%s\",\"detail\":\"%s\",\"probe\":-1,\"hex\":\"%s\",\"history\":%s}\n", rule, sig, esc, hx, hb);
    fflush(stdout); n_viol++;
}
static uint64_t outcome_hash(const result_t *r) { uint64_t h = 1469598103934665603ull; for (int i = 0; i < 2; i++) { for (int k = 0; k < r->m[i].n; k++) h = (h ^ r->m[i].ev[k]) * 1099511628211ull; h = (h ^ (r->m[i].stops * 7 + 3)) * 1099511628211ull; } return (h ^ r->ret) * 1099511628211ull; }
static uint64_t OUTC[1 << 16]; static int nout;
static void note_outcome(uint64_t h) { for (int i = 0; i < nout; i++) if (OUTC[i] == h) return; if (nout < (1 << 16)) OUTC[nout++] = h; }

static int check_prog(const prog_t *p) {
    result_t L, D; char d[300];
    n_progs++;
    if (inflight) *inflight = *p;
    run_loop(p, &L); run_dispatch(p, &D); n_runs += 2;
    note_outcome(outcome_hash(&L));
    for (int i = 0; i < 2; i++) {
        if (L.m[i].n != D.m[i].n || memcmp(L.m[i].ev, D.m[i].ev, sizeof(uint32_t) * L.m[i].n)) {
            int k = 0; while (k < L.m[i].n && k < D.m[i].n && L.m[i].ev[k] == D.m[i].ev[k]) k++;
            snprintf(d, sizeof d, "module %c: blocking loop delivered %d events, dispatch %d; first difference at #%d (%#x vs %#x)", 'A' + i, L.m[i].n, D.m[i].n, k, k < L.m[i].n ? L.m[i].ev[k] : 0, k < D.m[i].n ? D.m[i].ev[k] : 0);
            report(p, "LP.mode", "LP.mode|deliveries", d); return 1; }
        if (L.m[i].stops != D.m[i].stops || L.m[i].starts != D.m[i].starts) { snprintf(d, sizeof d, "module %c: on_stop ran %d times under the blocking loop, %d under dispatch", 'A' + i, L.m[i].stops, D.m[i].stops); report(p, "LP.mode", "LP.mode|callbacks", d); return 1; }
        for (int k = 0; k < L.m[i].n; k++) if ((L.m[i].ev[k] & 0xf000) == 0x9000 || ((L.m[i].ev[k] & 0xf000) == 0x2000 && !(L.m[i].ev[k] & 1)) || ((L.m[i].ev[k] & 0xf000) == 0x3000 && !(L.m[i].ev[k] & 1)) || (L.m[i].ev[k] & 0x800)) {
            snprintf(d, sizeof d, "module %c received event %#x with a wrong type/user pointer or not readable", 'A' + i, L.m[i].ev[k]); report(p, "EV.owner", "EV.owner|loop", d); return 1; }
    }
    if (L.ret != D.ret) { snprintf(d, sizeof d, "m_ctx_loop returned %d, the dispatch call that stops the loop returned %d", L.ret, D.ret); report(p, "LP.mode", "LP.mode|ret", d); return 1; }
    /* the loop returns only for stated reasons, with exactly the requested code */
    int has_quit7 = 0; for (int r = 0; r < p->nreact; r++) if (p->react[r].act == R_QUIT) has_quit7 = 1;
    if (!(L.ret == 0 || L.ret == 99 || (L.ret == 7 && has_quit7))) { snprintf(d, sizeof d, "m_ctx_loop returned %d: neither a requested quit code nor 0", L.ret); report(p, "LP.ret", "LP.ret|code", d); return 1; }
    if (L.ret == 0 && L.m[0].stops + L.m[1].stops < 2 && !L.blocked_quit) { snprintf(d, sizeof d, "m_ctx_loop returned 0 although no quit was requested and a module was never stopped"); report(p, "LP.ret", "LP.ret|early", d); return 1; }
    return 0;
}

static int shard_i = 0, shard_n = 1; static double deadline; static int capped;
int __real_clock_gettime(clockid_t, struct timespec *);      /* wall clock for deadlines (clock_gettime itself is virtual) */
static double now(void) { struct timespec t; __real_clock_gettime(CLOCK_MONOTONIC, &t); return t.tv_sec + t.tv_nsec / 1e9; }
static long prog_ctr;
static void enum_reacts(prog_t *p, int maxr) {
    /* reactions: none, every single one, every ordered pair on distinct (mod,at) */
    p->nreact = 0; if (prog_ctr++ % shard_n == shard_i) check_prog(p);
    if (maxr < 1) return;
    react_t all[2 * 2 * NREACT]; int na = 0;
    for (int m = 0; m < 2; m++) for (int at = 1; at <= 2; at++) for (int a = 0; a < NREACT; a++) all[na++] = (react_t){ m, at, a };
    for (int i = 0; i < na; i++) { p->nreact = 1; p->react[0] = all[i]; if (prog_ctr++ % shard_n == shard_i) check_prog(p); }
    if (maxr < 2) return;
    for (int i = 0; i < na; i++) for (int j = i + 1; j < na; j++) { if (all[i].mod == all[j].mod && all[i].at == all[j].at) continue;
        p->nreact = 2; p->react[0] = all[i]; p->react[1] = all[j]; if (prog_ctr++ % shard_n == shard_i) check_prog(p); if (n_viol > 20) return; }
}
static void enum_steps(prog_t *p, int depth, int maxsteps, int maxr) {
    if (capped || n_viol > 20) return;
    if (now() > deadline) { capped = 1; return; }
    enum_reacts(p, maxr);
    if (depth == maxsteps) return;
    for (int s = 0; s < NSTEP; s++) { p->steps[depth] = s; p->nsteps = depth + 1; enum_steps(p, depth + 1, maxsteps, maxr); }
    p->nsteps = depth;
}

int main(int argc, char **argv) {
    int N = 3, R = 1; const char *replay = NULL; double dl = 120; int verbose = 0;
    for (int i = 1; i < argc; i++) {
        if (!strcmp(argv[i], "--steps") && i + 1 < argc) N = atoi(argv[++i]);
        else if (!strcmp(argv[i], "--reactions") && i + 1 < argc) R = atoi(argv[++i]);
        else if (!strcmp(argv[i], "--shard") && i + 1 < argc) sscanf(argv[++i], "%d/%d", &shard_i, &shard_n);
        else if (!strcmp(argv[i], "--replay") && i + 1 < argc) replay = argv[++i];
        else if (!strcmp(argv[i], "--deadline") && i + 1 < argc) dl = atof(argv[++i]);
        else if (!strcmp(argv[i], "--verbose")) verbose = 1;
    }
    (void)verbose;
    double t0 = now(); deadline = t0 + dl;
    if (replay) { prog_t p; if (parse_prog(replay, &p)) { fprintf(stderr, "bad program\n"); return 2; } int bad = check_prog(&p); printf("REPLAY %s\n", bad ? "VIOLATION" : "ok"); return bad; }
    /* run the enumeration in a child so that a crash is attributed to the program in flight */
    inflight = mmap(NULL, sizeof(prog_t), PROT_READ | PROT_WRITE, MAP_SHARED | MAP_ANONYMOUS, -1, 0);
    fflush(NULL);
    pid_t pid = fork();
    if (pid == 0) {
        prog_t p; memset(&p, 0, sizeof p);
        /* mirror the program in flight */
        P = &p;
        enum_steps(&p, 0, N, R);
        char hb[600]; prog_t s = {0}; s.nsteps = 2; s.steps[0] = S_TELL_AB; s.steps[1] = S_RDY_A; s.nreact = 1; s.react[0] = (react_t){1, 1, R_QUIT}; fmt_prog(&s, hb, sizeof hb);
        /* hb is JSON-escaped for embedding in a string; print it as a raw JSON list instead */
        printf("STAT {\"harness\":\"c03_loop\",\"config\":\"loop-vs-dispatch steps<=%d reactions<=%d shard %d/%d\",\"states\":%d,\"transitions\":%ld,\"executions\":%ld,\"programs\":%ld,\"distinct_outcomes\":%d,\"violations\":%ld,\"capped\":%d,\"wall_s\":%.2f,\"samples\":[%s]}\n",
               N, R, shard_i, shard_n, nout, n_runs, n_runs, n_progs, nout, n_viol, capped, now() - t0, hb);
        fflush(stdout); _exit(n_viol ? 1 : 0);
    }
    int st; waitpid(pid, &st, 0);
    if (WIFEXITED(st) && WEXITSTATUS(st) <= 1) return WEXITSTATUS(st);
    { char d[160]; snprintf(d, sizeof d, "crash / sanitizer abort (wait status %d) while executing this program in one of the two driving modes", st); report(inflight, "CR.san", "CR.san|c03_loop", d); }
    printf("STAT {\"harness\":\"c03_loop\",\"config\":\"crashed\",\"states\":0,\"transitions\":0,\"executions\":0,\"violations\":1,\"capped\":3,\"samples\":[]}\n");
    return 1;
}
