/* C04 (third part) — tasks still running when their module stops (schedx, ASan).
 * One context on the main thread; module A owns a task source whose body spans scheduling points; the main thread stops /
 * deregisters / pauses A, or stops the loop, at every interleaving with the pool worker running the task (preemption-bounded).
 * Oracle: ASan (the worker must not touch a freed source/module), scheduler verdicts, and - when A stays RUNNING - exactly one
 * task event carrying the body's return value.
 * Config: --scenario 0 deliver | 1 stop | 2 deregister | 3 pause-resume | 4 quit | 5 stop+restart | 6 deliver, then the user opens descriptors (C20) | 7 stop then quit | 8 deregister then quit */
#define _GNU_SOURCE
#include "schedx.h"
#include <stdio.h>
#include <stdlib.h>
#include <string.h>
#include <unistd.h>
#include <fcntl.h>
#include <stdatomic.h>
#include <module/mod.h>
#include <module/ctx.h>
#include <module/mem/mem.h>

const char *hx_name = "c04_task";
static int SCEN = 0; static char cfg[100];
static m_mod_t *A, *B;
static atomic_int task_started, task_finished;
static int task_events, task_retval, a_stops, other_events;

#define NUFD6 6
static int ufd6[NUFD6] = { -1, -1, -1, -1, -1, -1 };
static void quiet(const m_mod_t *m, const char *f, va_list a) { (void)m; (void)f; (void)a; }
static void on_stop(m_mod_t *m) { if (m == A) a_stops++; }
static void on_evt(m_mod_t *m, const m_queue_t *const evts) {
    m_itr_foreach(evts, { m_evt_t *e = m_itr_get(m_itr);
        if (e->type == M_SRC_TYPE_TASK) { task_events++; task_retval = e->task_evt->retval; if (m != A) sch_fail("EV.owner", "EV.owner|task", "task event delivered to the wrong module"); }
        else other_events++; });
}
static int task_fn(void *up) {
    atomic_fetch_add(&task_started, 1); sch_obs_thread(11);
    sch_yield();                       /* the body spans other threads' steps */
    sch_yield();
    atomic_fetch_add(&task_finished, 1); sch_obs_thread(12);
    return 40 + (int)(intptr_t)up;
}
static void pump(int n) { for (int i = 0; i < n; i++) { m_ctx_dispatch(); sch_pass(); } }

void hx_main(void) {
    static const m_mod_hook_t hk = { NULL, NULL, on_evt, on_stop };
    if (m_ctx_register("c", M_CTX_PERSIST, NULL)) sch_fail("SETUP", "SETUP", "ctx_register");
    m_ctx_set_logger(quiet);
    m_mod_register("A", &A, &hk, 0, NULL); m_mod_register("B", &B, &hk, 0, NULL);
    m_ctx_dispatch();
    m_src_task_t tk = { 1, task_fn };
    int rc = m_mod_src_register_task(A, &tk, 0, (void *)(intptr_t)2);
    if (rc) sch_fail("SR.set", "SR.set|task", "task registration returned %d", rc);
    sch_yield();
    switch (SCEN) {
    case 0: for (int i = 0; i < 200 && !task_events; i++) { m_ctx_dispatch(); sch_pass(); } break;
    case 1: m_mod_stop(A); sch_yield(); pump(3); break;
    case 2: m_mod_deregister(&A); sch_yield(); pump(3); break;
    case 3: m_mod_pause(A); sch_yield(); pump(2); m_mod_resume(A); for (int i = 0; i < 200 && !task_events && atomic_load(&task_finished) < 2; i++) { m_ctx_dispatch(); sch_pass(); } pump(2); break;
    case 4: break;
    case 5: m_mod_stop(A); sch_yield(); m_mod_start(A); pump(3); break;
    case 7: m_mod_stop(A); break;                 /* the loop ends right after: the task may still be running, its module is already stopped */
    case 8: m_mod_deregister(&A); break;          /* same, module deregistered */
    case 6: for (int i = 0; i < 200 && !task_events; i++) { m_ctx_dispatch(); sch_pass(); }      /* the task is done and its event delivered ... */
        for (int i = 0; i < NUFD6; i++) ufd6[i] = dup(0);                                        /* ... the user opens descriptors (they take the lowest free numbers) ... */
        break;                                                                                   /* ... and the loop stops: the library must not close what it does not own */
    }
    m_ctx_quit(5);
    rc = m_ctx_dispatch();             /* loop stop: the pool is freed here (running tasks are waited for) */
    if (rc != 5) sch_fail("LP.ret", "LP.ret|code", "loop stop returned %d, expected 5", rc);
    if (atomic_load(&task_started) != atomic_load(&task_finished)) sch_fail("TK.wait", "TK.wait", "the loop stopped while a task body was still running (started %d, finished %d)", atomic_load(&task_started), atomic_load(&task_finished));
    if (A) m_mod_deregister(&A);
    m_mod_deregister(&B);
    m_ctx_deregister();
    if (SCEN == 6) for (int i = 0; i < NUFD6; i++) {
        if (ufd6[i] >= 0 && fcntl(ufd6[i], F_GETFD) == -1) sch_fail("LG.fd", "LG.fd|bad-close", "user descriptor %d, opened after the task had finished, was closed by the library (loop stop / context release)", ufd6[i]);
        if (ufd6[i] >= 0) close(ufd6[i]);
    }
}
void hx_final(void) {
    if (task_events > 1) sch_fail("EV.once", "EV.once|task", "the task event was delivered %d times", task_events);
    if (task_events == 1 && task_retval != 42) sch_fail("EV.owner", "EV.owner|task-retval", "task event carries %d, the body returned 42", task_retval);
    if ((SCEN == 0 || SCEN == 6) && task_events != 1) sch_fail("EV.lost", "EV.lost|task", "the task finished but its event was never delivered to the RUNNING module");
    if ((SCEN == 1 || SCEN == 2 || SCEN == 7 || SCEN == 8) && task_events && a_stops == 0) sch_fail("CB.running", "CB.running|task", "task event delivered although the module was stopped");
    if (atomic_load(&task_started) > 1 && SCEN != 3 && SCEN != 5) sch_fail("TK.once", "TK.once", "the task body ran %d times", atomic_load(&task_started));
    sch_obs(task_events * 10 + a_stops);
}
void hx_config(int argc, char **argv) {
    for (int i = 1; i < argc - 1; i++) if (!strcmp(argv[i], "--scenario")) SCEN = atoi(argv[i + 1]);
    static const char *sn[] = { "deliver", "stop-while-running", "deregister-while-running", "pause-resume-while-running", "quit-while-running", "stop-restart-while-running", "deliver-then-user-opens-descriptors", "stop-then-quit-while-running", "deregister-then-quit-while-running" };
    snprintf(cfg, sizeof cfg, "scenario=%s", sn[SCEN % 9]);
}
const char *hx_config_str(void) { return cfg; }
int main(int argc, char **argv) { return sch_main(argc, argv); }
