/* core world — part 5: do_api(): one public API call (top-level or re-entrant from a callback) */
#ifndef WORLD_API_H
#define WORLD_API_H

static int last_refused;      /* the outermost operation was refused (monitor state unchanged) */
#undef REFUSED
#define REFUSED(rc, what, sig) do { if ((rc) >= 0) vfail("ST.refuse", sig, "%s returned %d, expected a negative code", what, (int)(rc)); check_unchanged(&sn, what, sig); if (api_depth == 1) last_refused = 1; } while (0)

/* ---- non-pubsub sources: one register/deregister call per kind ---- */
static const int SIGS[3] = { SIGUSR1, SIGUSR2, 34 /* SIGRTMIN */ };
static const m_src_thresh_t THR[5] = { { 5, 0.5 }, { 5, 0.25 }, { 0, 1.0 }, { 5, 0 }, { 5, 1.0 } };      /* the first two (the quick tier's key menu) differ in the fraction of the frequency only */
static int task_fn(void *up) { (void)up; return 42; }
static int src_call(m_mod_t *h, int kind, int key, int reg, int flags, const void *up) {
    m_src_flags fl = ((flags & 1) ? M_SRC_FD_AUTOCLOSE : 0) | ((flags & 2) ? M_SRC_ONESHOT : 0) | ((flags & 4) ? M_SRC_DUP : 0) | ((flags & 8) ? M_SRC_AUTOFREE : 0);
    switch (kind) {
    case K_FD: return reg ? m_mod_src_register_fd(h, key == 15 ? -1 : key == 14 ? BADFD : UFD[key].rd, fl, up) : m_mod_src_deregister_fd(h, UFD[key].rd);
    case K_TMR: { m_src_tmr_t t = { CLOCK_MONOTONIC, key == 15 ? 0 : TPER[key] }; return reg ? m_mod_src_register_tmr(h, &t, fl, up) : m_mod_src_deregister_tmr(h, &t); }
    case K_SGN: { m_src_sgn_t g = { key == 15 ? 0 : SIGS[key] }; return reg ? m_mod_src_register_sgn(h, &g, fl, up) : m_mod_src_deregister_sgn(h, &g); }
    case K_PATH: { char *tmp = (reg && (flags & 4) && key != 15) ? strdup(PATHS[key]) : NULL;      /* DUP: the caller's string goes away right after the call */
        m_src_path_t pt = { key == 15 ? "" : tmp ? tmp : PATHS[key], 0x100 | 0x200 /* IN_CREATE | IN_DELETE */ }; int r = reg ? m_mod_src_register_path(h, &pt, fl, up) : m_mod_src_deregister_path(h, &pt); free(tmp); return r; }
    case K_PID: { m_src_pid_t pd = { key == 15 ? 0 : CHILD[key], 0 }; return reg ? m_mod_src_register_pid(h, &pd, fl, up) : m_mod_src_deregister_pid(h, &pd); }
    case K_TASK: { m_src_task_t tk = { key + 1, key == 15 ? NULL : task_fn }; return reg ? m_mod_src_register_task(h, &tk, fl, up) : m_mod_src_deregister_task(h, &tk); }
    case K_THRESH: { m_src_thresh_t th = key == 15 ? (m_src_thresh_t){ 0, 0 } : THR[key]; return reg ? m_mod_src_register_thresh(h, &th, fl, up) : m_mod_src_deregister_thresh(h, &th); }
    }
    return -1;
}
/* a one-shot source leaves the set when its event is received; while batching holds that event back the monitor has not seen the event yet */
#define SRC_MAYBE_GONE(s, i) ((MD[s].src[i].flags & 2) && MD[s].src[i].fired > 0 && MD[s].ever_batched && MD[s].st == S_RUNNING)
static const m_src_types KTYPE[NKIND] = { M_SRC_TYPE_FD, M_SRC_TYPE_TMR, M_SRC_TYPE_SGN, M_SRC_TYPE_PATH, M_SRC_TYPE_PID, M_SRC_TYPE_TASK, M_SRC_TYPE_THRESH };
/* SR.len: the counts reported by the module equal the sizes of the sets (library-internal sources excluded) */
static void audit_srclen(int s, const char *when) {
    m_mod_t *h = MD[s].present ? MD[s].h : NULL; if (!h || ctx_hidden()) return;
    int nsub = 0, per[NKIND] = {0}, tot = 0, slack[NKIND] = {0}, tslack = 0;
    for (int q = 0; q < NPAT; q++) nsub += MD[s].sub[q].present;
    for (int i = 0; i < MAXSRC; i++) if (MD[s].src[i].present) { per[MD[s].src[i].kind]++; tot++;
        /* a one-shot source leaves the set when its event is received; while batching holds that event back the monitor has not seen it yet */
        if (SRC_MAYBE_GONE(s, i)) { slack[MD[s].src[i].kind]++; tslack++; } }
    ssize_t r = m_mod_src_len(h, M_SRC_TYPE_PS);
    if (r != nsub) vfail("SR.len", "SR.len|ps", "%s reports %zd subscriptions, the set has %d (%s)", MD[s].name, r, nsub, when);
    for (int k = 0; k < NKIND; k++) { r = m_mod_src_len(h, KTYPE[k]); if (r > per[k] || r < per[k] - slack[k]) vfail("SR.len", "SR.len|kind", "%s reports %zd %s sources, the set has %d (%s)", MD[s].name, r, KN[k], per[k], when); }
    r = m_mod_src_len(h, M_SRC_TYPE_END);
    if (r > nsub + tot || r < nsub + tot - tslack) vfail("SR.len", "SR.len|total", "%s reports %zd sources in total, the sets have %d (%s)", MD[s].name, r, nsub + tot, when);
}

/* ---- token bucket: success log over virtual time ---- */
static struct { uint64_t t[64]; int n; int refusals; uint64_t set_at; } TBLOG[NM];
static const struct { int rate; int burst; } TBCFG[] = { { 0, 0 }, { 1, 1 }, { 2, 1 }, { 1, 3 }, { 1000, 2 }, { 65536, 1 } };
#define NTBCFG 6
/* returns 1 if the call was refused by the bucket (and checks that this was legitimate) */
static int tb_account(int s, int rc, const snap_t *sn, const char *what) {
    mod_t *m = &MD[s];
    if (m->tb_rate <= 0) { if (rc == -EAGAIN && ON(R_TB)) vfail("TB.off", "TB.off", "%s refused with EAGAIN although no token bucket is configured", what); return 0; }
    if (rc == -EAGAIN) {
        TBLOG[s].refusals++;
        check_unchanged(sn, what, "TB.refuse|effect");
        return 1;
    }
    if (rc < 0) return 0;
    if (TBLOG[s].n < 64) TBLOG[s].t[TBLOG[s].n++] = shim_now_ns;
    if (ON(R_TB)) for (int i = 0; i < TBLOG[s].n; i++) {     /* every interval ending now */
        int cnt = TBLOG[s].n - i; double dt = (double)(shim_now_ns - TBLOG[s].t[i]) / 1e9;
        /* +1: a refill that was already due when the bucket was full may be credited late (lazy crediting at dispatch time), see DESIGN 11.4 */
        if (cnt > m->tb_burst + m->tb_rate * dt + 1 + 1e-9)
            vfail("TB.bound", "TB.bound", "%d token-consuming calls of %s succeeded within %.6f s, the bucket allows at most burst %d + rate %d * t", cnt, m->name, dt, m->tb_burst, m->tb_rate);
    }
    return 0;
}

static int last_send_rc;
static int adv_drains;          /* profiles with batching: the loop is drained before the clock moves, so that 'accumulated when the timeout expires' is well defined */
static void drain(void);
static int touch_ctr[2], child_dead[2];
static int inj_at_entry, nmsg_at_entry;
/* a pipe write was refused during this call (mailbox full): whatever was sent during the call may have vanished for one recipient */
static void inj_relax(void) {
    if (!(inj_at_entry && !shim_inject_write_eagain)) return;
    mon_flush();
    for (int g = nmsg_at_entry; g < nmsg; g++) if (MSG[g].used) {
        MSG[g].may_vanish = 1;
        if (MSG[g].topic == T_PILL)      /* the pill itself may have been lost: it is then neither owed nor a barrier for later messages */
            for (int i = 0; i < NM; i++) for (int k = 0; k < MD[i].nmb; k++) if (MD[i].mb[k].msg == g && !MD[i].mb[k].optional) { MD[i].mb[k].optional = 1; MSG[g].owed--; }
    }
    inj_at_entry = 0;
}
static void discard_pending(int i) {   /* the pending messages of module i are about to be discarded by the library */
    for (int k = 0; k < MD[i].nmb; k++) if (!MD[i].mb[k].optional && MD[i].mb[k].kind == 0) { MD[i].mb[k].optional = 1; MSG[MD[i].mb[k].msg].owed--; }
}

static void do_api(op_t op) {
    int s = op.a, rc; snap_t sn; char what[96];
    api_depth++;
    mon_flush();
    if (api_depth == 1) { inj_at_entry = shim_inject_write_eagain; nmsg_at_entry = nmsg; }
    switch (op.c) {
    /* ------------------------------------------------ context */
    case O_CTX_REG: {
        {   /* op.d: 1 = NAME_DUP (the caller's buffer goes away at once), 2 = name and user data handed over as auto-free blocks */
            char *tmpname = op.d == 1 ? strdup("ctx") : NULL, *hname = op.d == 2 ? lg_malloc(4) : NULL; void *hud = op.d == 2 ? lg_malloc(8) : NULL;
            if (hname) strcpy(hname, "ctx");
            rc = m_ctx_register(tmpname ? tmpname : hname ? hname : "ctx", (op.b ? M_CTX_PERSIST : 0) | (op.d == 1 ? M_CTX_NAME_DUP : op.d == 2 ? M_CTX_NAME_AUTOFREE | M_CTX_USERDATA_AUTOFREE : 0), hud);
            free(tmpname);
            if (rc) { if (hname && lg_is_live(hname)) lg_free(hname); if (hud && lg_is_live(hud)) lg_free(hud); }      /* rejected: still the caller's */
        }
        if (CX.exists) { if (rc != -EEXIST) vfail("CX.one", "CX.one", "second m_ctx_register returned %d, expected -EEXIST", rc); break; }
        if (rc) vfail("CX.reg", "CX.reg", "m_ctx_register returned %d on a thread without a context", rc);
        CX.exists = 1; CX.persist = op.b; CX.var = op.d; CX.looping = CX.quit = CX.finalized = CX.tick = 0; CX.ever = 1;
        break; }
    case O_CTX_DEREG: {
        take_snap(&sn);
        if (!CX.exists || CX.looping || ctx_hidden()) { rc = m_ctx_deregister(); REFUSED(rc, "m_ctx_deregister", CX.looping ? "ST.refuse|ctx-dereg-looping" : "ST.refuse|ctx-dereg-none"); break; }
        for (int i = 0; i < NM; i++) if (MD[i].present) discard_pending(i);
        teardown_busy++;
        rc = m_ctx_deregister();
        teardown_busy--;
        if (rc) vfail("CX.dereg", "CX.dereg|rc", "m_ctx_deregister of an idle context returned %d", rc);
        mon_flush();
        for (int i = 0; i < NM; i++) if (MD[i].present) {
            if (MD[i].st == S_RUNNING || MD[i].st == S_PAUSED) vfail("CB.pair", "CB.pair|stop-missing", "context deregistered but on_stop of %s (state %s) never ran", MD[i].name, SN[MD[i].st]);
            teardown_zombie(i);
        }
        CX.exists = 0; mt_del(-1, -3);
        break; }
    case O_FINALIZE: {
        rc = m_ctx_finalize();
        if (!CX.exists || ctx_hidden()) { if (rc >= 0) vfail("ST.refuse", "ST.refuse|finalize", "m_ctx_finalize returned %d without an accessible context", rc); break; }
        if (rc) vfail("CX.finalize", "CX.finalize", "m_ctx_finalize returned %d", rc);
        CX.finalized = 1; break; }
    case O_QUIT: {
        take_snap(&sn);
        rc = m_ctx_quit(QCODE[op.a]);
        if (!CX.exists || !CX.looping || ctx_hidden()) { REFUSED(rc, "m_ctx_quit", "ST.refuse|quit"); break; }
        if (rc) vfail("LP.quit", "LP.quit", "m_ctx_quit returned %d while looping", rc);
        CX.quit = 1; CX.quit_code = QCODE[op.a]; break; }
    case O_SET_TICK: {
        static const uint64_t TICKNS[] = { 0, 4000000ull, 12000000ull };      /* off, 4 ms, 12 ms */
        rc = m_ctx_set_tick(TICKNS[op.a % 3]);
        if (!CX.exists || ctx_hidden()) { if (rc >= 0) vfail("ST.refuse", "ST.refuse|tick", "m_ctx_set_tick returned %d without an accessible context", rc); break; }
        if (rc) vfail("CX.tick", "CX.tick", "m_ctx_set_tick returned %d", rc);
        CX.tick = op.a % 3; mt_del(-1, -3); if (CX.tick) mt_set(-1, -3, TICKNS[CX.tick], 0, CX.looping);
        break; }
    case O_CTXCALL: {      /* every context call (C15: denied while a callback of a DENY_CTX module executes; C07: fails without context) */
        int denied = !CX.exists || ctx_hidden();
        take_snap(&sn);
        switch (op.a) {
        case 0: { rc = (int)m_ctx_len(); int busy = teardown_busy; for (int i = 0; i < NM; i++) busy |= dereg_busy[i];
            if (!denied && !busy && rc != n_present()) vfail("CX.len", "CX.len", "m_ctx_len=%d, monitor has %d modules", rc, n_present()); break; }
        case 1: { const char *cn = m_ctx_name(); rc = cn ? 0 : -1; if (cn && strcmp(cn, "ctx")) vfail("CX.name", "CX.name", "m_ctx_name returned '%s', registered 'ctx'", cn); } break;
        case 2: { m_ctx_stats_t st; rc = m_ctx_stats(&st); if (!denied && !CX.looping) rc = 0; } break;
        case 3: rc = m_ctx_dump(); break;
        case 4: { int fd = m_ctx_fd(); rc = fd < 0 ? fd : 0; if (fd >= 0) { __real_close(fd); shim_user_fd_forget(fd); } } break;
        case 5: rc = m_ctx_register("ctx", 0, NULL);      /* a thread has at most one context - also while a DENY_CTX callback hides it */
            if (CX.exists && rc >= 0) vfail("CX.one", "CX.one|nested", "m_ctx_register returned %d although the thread already has a context%s", rc, ctx_hidden() ? " (hidden from the executing DENY_CTX callback)" : "");
            if (!CX.exists && rc == 0) { CX.exists = 1; CX.persist = 0; CX.var = 0; CX.looping = CX.quit = CX.finalized = CX.tick = 0; CX.ever = 1; }
            rc = 0; break;
        default: rc = 0;
        }
        if (denied && op.a <= 4 && rc >= 0) vfail("PM.ctx", CX.exists ? "PM.ctx|allowed" : "CX.none|allowed", "context call #%d succeeded (%d) although %s", op.a, rc, CX.exists ? "the executing callback belongs to a DENY_CTX module" : "the thread has no context");
        if (!denied && op.a <= 4 && rc < 0) vfail("CX.call", "CX.call", "context call #%d failed (%d) although a context exists and nothing denies it", op.a, rc);
        break; }
    case O_DISPATCH: {
        if (!CX.exists || ctx_hidden()) { rc = m_ctx_dispatch(); if (rc >= 0) vfail("ST.refuse", "ST.refuse|dispatch", "m_ctx_dispatch returned %d without an accessible context", rc); break; }
        if (!CX.looping) {
            CX.looping = 1; CX.quit = 0; in_pass = 1; CX.pass_changed = 0;
            for (int i = 0; i < NM; i++) eval_ok[i] = 0;
            rc = m_ctx_dispatch(); in_pass = 0;
            if (rc) vfail("LP.start", "LP.start", "first m_ctx_dispatch (loop start) returned %d", rc);
            mon_flush(); post_push(POST_CTX_STARTED, -1, 0); mon_flush();
            mtimer_t *t = mt_find(-1, -3); if (t) { t->armed = 1; t->next = shim_now_ns + t->period; }
            check_pass("the loop started");
        } else if (CX.quit || n_running() == 0) {
            int want = CX.quit ? CX.quit_code : 0; int nmsg_stop_entry = nmsg;
            CX.looping = 0; flush_phase = 1;
            post_push(POST_CTX_STOPPED, -1, 0); mon_flush();
            /* modules that are not RUNNING get nothing: their pending messages are discarded by this call */
            for (int i = 0; i < NM; i++) if (MD[i].present && MD[i].st != S_RUNNING) discard_pending(i);
            rc = m_ctx_dispatch(); flush_phase = 0; inj_relax();
            if (rc != want) vfail("LP.ret", "LP.ret|code", "the dispatch call that stops the loop returned %d, expected the requested code %d", rc, want);
            mon_flush();
            for (int i = 0; i < NM; i++) { mod_t *m = &MD[i]; if (!m->present) continue;
                if (m->st == S_RUNNING) {
                    int held = m->batch_size > 0 || m->batch_tmo > 0 || m->ever_batched;
                    if (holds_low(i)) held = 1;
                    if (!held && ON(R_PS)) for (int k = 0; k < m->nmb; k++) if (!m->mb[k].optional && m->mb[k].kind == 0 && m->mb[k].msg < nmsg_stop_entry && !owed_excused(i, k))   /* sent before this call */
                        vfail("PS.owed", MSG[m->mb[k].msg].sys ? "PS.owed|sys" : "PS.owed", "the loop stopped but message #%d (topic %s) owed to RUNNING module %s was never handed over", m->mb[k].msg,
                              MSG[m->mb[k].msg].topic < NTOPIC ? TOPIC[MSG[m->mb[k].msg].topic] : "-", m->name);
                    for (int k = m->nmb - 1; k >= 0; k--) if (m->mb[k].optional && m->mb[k].msg < nmsg_stop_entry) mb_remove(i, k);      /* (what was sent during this very call may have missed the module's turn in the flush: it stays, optional or owed as it was) */
                } else {       /* discarded for everybody else - except what a batching module had already received and holds: whether that survives the loop end is unspecified (optional) */
                    int w = 0;
                    for (int k = 0; k < m->nmb; k++) { pend_t e = m->mb[k]; if (!e.optional && e.kind == 0) MSG[e.msg].owed--;
                        if (e.kind == 0 && m->st == S_PAUSED && (e.maybe_recvd || e.msg >= nmsg_stop_entry)) { e.optional = 1; m->mb[w++] = e; } }      /* sent during the flush itself: may have missed this module's turn */
                    m->nmb = w;
                }
            }
            CX.quit = 0; mtimer_t *t = mt_find(-1, -3); if (t) t->armed = 0;
            if (!CX.persist && n_present() == 0) { CX.exists = 0; TRACE("context auto-released at loop stop"); }
        } else {
            in_pass = 1; CX.pass_changed = 0;
            for (int i = 0; i < NM; i++) eval_ok[i] = 0;
            int inj = shim_inject_epoll_errno; long cb_before = cb_total;
            rc = m_ctx_dispatch(); in_pass = 0;
            mon_flush();
            if (tick_owed) { tick_owed = 0; post_push(POST_TICK, -1, 1); mon_flush(); }   /* ticks: an upper bound on frequency only, hence optional */
            if (inj == EBADF) { if (rc < 0) { CX.quit = 1; CX.quit_code = EBADF; } }
            else if (rc < 0 && ON(R_LP)) vfail("LP.ret", "LP.ret|error", "m_ctx_dispatch returned %d although polling did not fail", rc);
            for (int i = 0; i < NM; i++) if (MD[i].present && MD[i].st == S_RUNNING) for (int k = 0; k < MD[i].nmb; k++) MD[i].mb[k].maybe_recvd = 1;
            if (rc > 0 || cb_total != cb_before) check_pass("a batch of events was processed");      /* also a batch whose only event was a poison pill (it ran on_stop) */
            last_dispatch_rc = rc; obs(rc > 0 ? rc : 0);
            for (int i = 0; i < NM; i++) { mod_t *m = &MD[i]; if (!m->batch_due) continue;
                if (m->present && m->st == S_RUNNING && m->batch_tmo && ON(R_BA)) for (int k = 0; k < m->nmb; k++) if (!m->mb[k].optional && m->mb[k].kind == 0 && m->mb[k].msg < m->batch_due)
                    vfail("BA.when", "BA.when|timeout-held", "%s: the batch timeout expired with message #%d accumulated, but the next dispatch did not hand it over", m->name, m->mb[k].msg);
                m->batch_due = 0; }
        }
        break; }
    /* ------------------------------------------------ module life */
    case O_REG: {
        if (op.b == 8) {      /* hook == NULL: a module loaded at run time; the file does not exist, so the registration fails after the module object was built - it must leave no trace */
            m_mod_t *ph = NULL; take_snap(&sn);
            rc = m_mod_register("/nonexistent/verif-plugin.so", &ph, NULL, 0, NULL);
            if (rc >= 0 || ph) vfail("ST.refuse", "ST.refuse|plugin", "m_mod_register of a plugin file that does not exist returned %d", rc);
            check_unchanged(&sn, "m_mod_register(missing plugin)", "ST.refuse|plugin");
            break; }
        m_mod_hook_t hk = { w_start, (op.b >> 1) ? w_eval : NULL, w_evt0, w_stop };
        m_mod_t *nh = NULL; take_snap(&sn);
        int replace = CX.exists && !CX.finalized && MD[s].present && !ctx_hidden() && mflag(s, M_MOD_ALLOW_REPLACE) && !(mflag(s, M_MOD_PERSIST) && CX.looping) && !dereg_busy[s] && !teardown_busy;
        m_mod_t *oldh = NULL;
        if (replace) {       /* the existing module allows replacement: it is deregistered first (ZOMBIE, with its on_stop if RUNNING/PAUSED) */
            if (MD[s].st == S_RUNNING) exp_stop_run[s]++; else if (MD[s].st == S_PAUSED) exp_stop_other[s]++; else opt_stop[s]++;
            mon_stop_effects(s); oldh = MD[s].h; dereg_busy[s]++;
        }
        int legal = (CX.exists && !CX.finalized && !MD[s].present && !ctx_hidden()) || replace;
        int save_eval = MD[s].evalmode;
        if (legal) { MD[s].evalmode = op.b >> 1; }
        /* name / user data handed over with an auto-free flag: heap blocks from the ledger allocator; the library owns them once the registration succeeded */
        char *hname = (MFLAGS[op.d] & M_MOD_NAME_AUTOFREE) ? lg_malloc(strlen(MD[s].name) + 1) : NULL; if (hname) strcpy(hname, MD[s].name);
        void *hud = (MFLAGS[op.d] & M_MOD_USERDATA_AUTOFREE) ? lg_malloc(8) : NULL;
        rc = m_mod_register(hname ? hname : MD[s].name, &nh, &hk, MFLAGS[op.d], hud ? hud : (void *)&MD[s]);
        if (rc) { if (hname && lg_is_live(hname)) lg_free(hname); if (hud && lg_is_live(hud)) lg_free(hud); }      /* rejected: still the caller's */
        if (!legal) { MD[s].evalmode = save_eval;
            if (rc >= 0) vfail("ST.refuse", !CX.exists ? "CX.none|register" : CX.finalized ? "CX.finalized" : "NM.uniq", "m_mod_register returned %d although %s", rc, !CX.exists ? "the thread has no context" : CX.finalized ? "the context is finalized" : "the name is taken");
            if (MD[s].present && CX.exists && !CX.finalized && !ctx_hidden() && rc != -EEXIST) vfail("NM.uniq", "NM.uniq|code", "duplicate name refused with %d, expected -EEXIST", rc);
            check_unchanged(&sn, "m_mod_register", "ST.refuse|register"); break; }
        if (rc) vfail("NM.reg", replace ? "NM.replace|rc" : "NM.reg", "m_mod_register of a %s name returned %d", replace ? "replaceable" : "free", rc);
        if (replace) {
            dereg_busy[s]--; mon_flush();
            if (!m_mod_is(oldh, M_MOD_ZOMBIE)) vfail("NM.replace", "NM.replace|not-zombie", "the replaced module is not a ZOMBIE after its replacement was registered");
            const char *onm = m_mod_name(oldh); if (!onm || strcmp(onm, MD[s].name)) vfail("ST.zombie", "ST.zombie|name", "replaced module lost its name");
            int xb = MD[s].extra; replacing_now = 1; set_zombie(s); replacing_now = 0; MD[s].extra = xb;
            if (xb == 0) { m_mem_unref(oldh); MD[s].ptr = NULL; }        /* the harness drops its reference on the replaced module at once */
            else vfail("INTERNAL", "INTERNAL", "replace with extra references not generated");
        }
        mod_t *m = &MD[s];
        if (m->extra > 0 && m->ptr) vfail("INTERNAL", "INTERNAL", "slot reused while a zombie reference is held");
        int gen = m->reg_gen + 1; const char *nm = m->name;
        memset(m, 0, sizeof *m); m->name = nm; m->reg_gen = gen;
        m->h = m->ptr = nh; m->present = 1; m->st = S_IDLE; m->evalmode = op.b >> 1; m->startret = op.b & 1; m->flagsidx = op.d;
        if (in_pass) CX.pass_changed = 1;
        break; }
    case O_DEREG: {
        m_mod_t *h = handle(s); snprintf(what, sizeof what, "m_mod_deregister(%s)", MD[s].name); take_snap(&sn);
        if (MD[s].present && (dereg_busy[s] || teardown_busy)) {   /* deregistering a module whose deregistration is in progress: unspecified, any answer accepted */
            m_mod_t *t = h; int xb = MD[s].extra; rc = m_mod_deregister(&t); if (rc == 0) { mon_flush(); MD[s].extra = xb; MD[s].h = NULL; set_zombie(s); if (MD[s].extra == 0) MD[s].ptr = NULL; } break; }
        int legal = MD[s].present && !ctx_hidden() && !(mflag(s, M_MOD_PERSIST) && CX.looping);
        if (!legal) { m_mod_t *t = h; rc = m_mod_deregister(&t); REFUSED(rc, what, MD[s].present ? "ST.refuse|dereg-persist" : "ST.refuse|dereg-zombie"); break; }
        if (MD[s].st == S_RUNNING) exp_stop_run[s]++; else if (MD[s].st == S_PAUSED) exp_stop_other[s]++; else opt_stop[s]++;
        mon_stop_effects(s);
        dereg_busy[s]++;
        rc = m_mod_deregister(&MD[s].h);
        dereg_busy[s]--;
        if (rc) vfail("ST.accept", "ST.accept|dereg", "%s returned %d", what, rc);
        if (MD[s].h) vfail("ST.accept", "ST.accept|dereg-handle", "%s did not clear the caller's handle", what);
        mon_flush();
        set_zombie(s);
        break; }
    case O_START: case O_PAUSE: case O_RESUME: case O_STOP: {
        static const char *nm[] = { "m_mod_start", "m_mod_pause", "m_mod_resume", "m_mod_stop" };
        m_mod_t *h = handle(s); int k = op.c - O_START; snprintf(what, sizeof what, "%s(%s in %s)", nm[k], MD[s].name, SN[MD[s].st]);
        int st = MD[s].st;
        int legal = MD[s].present && !ctx_hidden() && (k == 0 ? (st == S_IDLE || st == S_STOPPED) : k == 1 ? st == S_RUNNING : k == 2 ? st == S_PAUSED : (st == S_RUNNING || st == S_PAUSED));
        take_snap(&sn);
        if (!legal) { rc = k == 0 ? m_mod_start(h) : k == 1 ? m_mod_pause(h) : k == 2 ? m_mod_resume(h) : m_mod_stop(h);
            char sg[64]; snprintf(sg, sizeof sg, "ST.refuse|%s-in-%s", nm[k] + 6, SN[st]); REFUSED(rc, what, sg); break; }
        int gen = MD[s].reg_gen;
        /* a module with a token bucket: the call may be refused at its entry (EAGAIN, no effect) - keep what the monitor is about to change */
        static struct { mod_t md[NM]; mtimer_t mt[24]; int es[NM], er[NM], eo[NM], os[NM], np; msg_t msg[MAXMSG]; int ufd[NUFD]; } SV; int saved = 0;
        if (MD[s].tb_rate > 0) { saved = 1; memcpy(SV.md, MD, sizeof MD); memcpy(SV.mt, MT, sizeof MT); memcpy(SV.es, exp_start, sizeof exp_start); memcpy(SV.er, exp_stop_run, sizeof exp_stop_run);
            memcpy(SV.eo, exp_stop_other, sizeof exp_stop_other); memcpy(SV.os, opt_stop, sizeof opt_stop); SV.np = npost; memcpy(SV.msg, MSG, sizeof(msg_t) * nmsg); for (int u = 0; u < NUFD; u++) SV.ufd[u] = UFD[u].open_rd; }
        if (k == 0) { MD[s].st = S_RUNNING; exp_start[s]++; mt_arm_all(s, 1); rc = m_mod_start(h); }
        else if (k == 1) { MD[s].st = S_PAUSED; MD[s].batch_due = 0; if (flush_phase) discard_pending(s); mt_arm_all(s, 0); rc = m_mod_pause(h); mon_flush(); post_push(POST_STOPPED, s, 0); }
        else if (k == 2) { MD[s].st = S_RUNNING; mt_arm_all(s, 1); rc = m_mod_resume(h); mon_flush(); post_push(POST_STARTED, s, 0); }
        else { if (st == S_RUNNING) exp_stop_run[s]++; else exp_stop_other[s]++; mon_stop_effects(s); mt_del_all(s); rc = m_mod_stop(h); }
        if (rc == -EAGAIN && saved) {      /* refused by the bucket: nothing happened */
            memcpy(MD, SV.md, sizeof MD); memcpy(MT, SV.mt, sizeof MT); memcpy(exp_start, SV.es, sizeof exp_start); memcpy(exp_stop_run, SV.er, sizeof exp_stop_run);
            memcpy(exp_stop_other, SV.eo, sizeof exp_stop_other); memcpy(opt_stop, SV.os, sizeof opt_stop); npost = SV.np; memcpy(MSG, SV.msg, sizeof(msg_t) * nmsg); for (int u = 0; u < NUFD; u++) UFD[u].open_rd = SV.ufd[u];
            tb_account(s, rc, &sn, what); break; }
        if (saved && rc >= 0) tb_account(s, rc, &sn, what);
        if (rc && MD[s].reg_gen == gen && MD[s].present) vfail("ST.accept", "ST.accept|state-call", "%s returned %d", what, rc);
        if (k == 0 && MD[s].present && MD[s].st == S_STOPPED) mt_del_all(s);
        break; }
    case O_SET_EVAL: MD[s].evalmode = 1; break;
    case O_REF: m_mem_ref(handle(s)); MD[s].extra++; break;
    case O_UNREF: { m_mod_t *p = MD[s].ptr; MD[s].extra--; if (!MD[s].present && MD[s].extra == 0) MD[s].ptr = NULL; m_mem_unref(p); break; }
    /* ------------------------------------------------ messaging */
    case O_TELL: case O_PUB: case O_BCAST: case O_PILL: {
        int to = op.c == O_TELL || op.c == O_PILL ? op.b : -1, topic = op.c == O_PUB ? op.b : op.c == O_PILL ? T_PILL : T_NONE, af = op.c == O_PILL ? 0 : op.d;
        m_mod_t *h = handle(s), *th = to >= 0 ? handle(to) : NULL;
        snprintf(what, sizeof what, "%s from %s", op.c == O_TELL ? "tell" : op.c == O_PUB ? "publish" : op.c == O_BCAST ? "broadcast" : "poisonpill", MD[s].name);
        int legal = MD[s].present && !ctx_hidden() && !mflag(s, M_MOD_DENY_PUB);
        if (op.c == O_PUB && topic >= T_CTX_STARTED) legal = 0;                     /* reserved prefix */
        if (op.c == O_PILL && !(MD[to].present && MD[to].st == S_RUNNING)) legal = 0;
        if (to >= 0 && !th) { api_depth--; return; }
        take_snap(&sn);
        int inj_armed = shim_inject_write_eagain;
        int msg = -1; const void *payload = NULL;
        if (op.c != O_PILL) { msg = new_msg(s, topic, 0, af && legal); if (!(af && legal)) { /* refused calls get a plain payload: the library must not free it */ } payload = MSG[msg].payload; }
        else if (legal) msg = new_msg(s, T_PILL, 1, 0);
        rc = op.c == O_TELL ? m_mod_ps_tell(h, th, payload, af && legal ? M_PS_AUTOFREE : 0)
           : op.c == O_PILL ? m_mod_ps_poisonpill(h, th)
           : m_mod_ps_publish(h, op.c == O_PUB ? TOPIC[topic] : NULL, payload, af && legal ? M_PS_AUTOFREE : 0);
        if (!legal) { if (msg >= 0) MSG[msg].used = 0;
            const char *sg = mflag(s, M_MOD_DENY_PUB) ? "PM.pub" : (op.c == O_PUB && topic >= T_CTX_STARTED) ? "PM.reserved" : op.c == O_PILL ? "ST.refuse|pill" : "ST.refuse|send";
            REFUSED(rc, what, sg); break; }
        last_send_rc = rc;
        if (tb_account(s, rc, &sn, what)) { if (msg >= 0) { MSG[msg].used = 0; if (MSG[msg].autofree) lg_free((void *)MSG[msg].payload); } break; }
        int send_rc_neg = 0;
        if (rc && inj_armed && !shim_inject_write_eagain) send_rc_neg = 1;      /* reporting a full mailbox to the sender is acceptable */
        else if (rc) vfail("PS.accept", "PS.accept", "%s returned %d", what, rc);
        int n = mon_send(msg, to, -1);
        if (inj_armed && !shim_inject_write_eagain) { MSG[msg].may_vanish = 1; if (send_rc_neg) MSG[msg].rc_neg = 1; }   /* a pipe write was refused (mailbox full): one copy may vanish */
        obs(3000 + n);
        if (af && n == 0 && ON(R_FREE) && lg_is_live((void *)payload))
            vfail("PS.free", "PS.free|no-recipient", "%s with the auto-free flag had no eligible recipient but the payload was not released", what);
        break; }
    case O_SUB: case O_UNSUB: {
        m_mod_t *h = handle(s); int p = op.b; take_snap(&sn);
        int legal = MD[s].present && !ctx_hidden() && !mflag(s, M_MOD_DENY_SUB);
        if (op.c == O_SUB) {
            int prio = op.d & 3, oneshot = (op.d >> 2) & 1, upver = (op.d >> 3) & 1;
            m_src_flags fl = (prio == PR_LOW ? M_SRC_PRIO_LOW : prio == PR_HIGH ? M_SRC_PRIO_HIGH : M_SRC_PRIO_NORM) | (oneshot ? M_SRC_ONESHOT : 0);
            int dup = (op.d >> 4) & 1, af = (op.d >> 5) & 1; char *tcopy = NULL;
            int same = af && (op.d & 64) && MD[s].sub[p].present && MD[s].sub[p].af;      /* the same user data again */
            void *heapup = !af ? NULL : same ? UPVH[s][p] : lg_malloc(8);
            if (af) fl |= M_SRC_AUTOFREE;
            if (dup) { fl |= M_SRC_DUP; tcopy = strdup(PAT[p]); }              /* DUP: the caller's string may go away right after the call */
            rc = m_mod_ps_subscribe(h, dup ? tcopy : PAT[p], fl, af ? heapup : (void *)&UPV[s][p][upver]);
            free(tcopy);
            if (rc && heapup && !same && lg_is_live(heapup)) { lg_free(heapup); heapup = NULL; }
            if (!rc && legal) { if (UPVH[s][p] != heapup && UPVH[s][p]) UPVH_OLD[s][p][UPVH_OLDN[s][p]++ % 6] = UPVH[s][p]; UPVH[s][p] = heapup; }
            if (!legal) { REFUSED(rc, "subscribe", mflag(s, M_MOD_DENY_SUB) ? "PM.sub" : "ST.refuse|subscribe"); break; }
            if (tb_account(s, rc, &sn, "subscribe")) break;
            if (rc) vfail("SR.set", "SR.set|sub", "subscribe(%s) by %s returned %d (a repeated subscription is updated in place)", PAT[p], MD[s].name, rc);
            if (MD[s].sub[p].present && (MD[s].sub[p].prio != prio || MD[s].sub[p].oneshot != oneshot || MD[s].sub[p].dup != dup || MD[s].sub[p].af != af)) MD[s].life |= 1024;   /* replaced, not updated in place: a different path in the library */
            if (MD[s].sub[p].present && MD[s].sub[p].dup) MD[s].life |= 32768;      /* what the re-subscription found in place is part of the path too: a DUP topic / auto-free user data die with it */
            if (MD[s].sub[p].present && MD[s].sub[p].af) MD[s].life |= 65536;
            { int replaced = !MD[s].sub[p].present || MD[s].sub[p].prio != prio || MD[s].sub[p].oneshot != oneshot || MD[s].sub[p].dup != dup || MD[s].sub[p].af != af; int g = MD[s].sub[p].gen + (replaced ? 1 : 0);
              MD[s].sub[p] = (sub_t){ 1, prio, oneshot, upver, dup, af, g }; } MD[s].life |= 32;
        } else {
            rc = m_mod_ps_unsubscribe(h, PAT[p]);
            if (legal && MD[s].sub[p].present && tb_account(s, rc, &sn, "unsubscribe")) break;
            if (!legal || !MD[s].sub[p].present) { REFUSED(rc, "unsubscribe", !legal && mflag(s, M_MOD_DENY_SUB) ? "PM.sub" : "SR.set|unsub-absent"); break; }
            if (rc) vfail("SR.set", "SR.set|unsub", "unsubscribe(%s) by %s returned %d", PAT[p], MD[s].name, rc);
            MD[s].sub[p].present = 0;
        }
        break; }
    /* ------------------------------------------------ behaviour */
    case O_BECOME: case O_UNBECOME: {
        m_mod_t *h = handle(s); take_snap(&sn);
        int legal = MD[s].present && !ctx_hidden() && MD[s].st == S_RUNNING;
        if (op.c == O_BECOME) {
            rc = m_mod_become(h, HANDLER[op.b]);
            if (!legal) { REFUSED(rc, "m_mod_become", "ST.refuse|become"); break; }
            if (tb_account(s, rc, &sn, "become")) break;
            if (rc) vfail("HD.push", "HD.push", "m_mod_become on RUNNING %s returned %d", MD[s].name, rc);
            if (MD[s].nhs < 8) MD[s].hs[MD[s].nhs++] = op.b; MD[s].life |= 16;
        } else {
            rc = m_mod_unbecome(h);
            if (legal && MD[s].nhs && tb_account(s, rc, &sn, "unbecome")) break;
            if (!legal || MD[s].nhs == 0) { REFUSED(rc, "m_mod_unbecome", legal ? "HD.pop-empty" : "ST.refuse|unbecome"); break; }
            if (rc) vfail("HD.pop", "HD.pop", "m_mod_unbecome on RUNNING %s with %d installed handlers returned %d", MD[s].name, MD[s].nhs, rc);
            MD[s].nhs--;
        }
        break; }
    case O_BATCH_SIZE: {
        m_mod_t *h = handle(s); take_snap(&sn);
        rc = m_mod_set_batch_size(h, BSZ[op.b]);
        if (!MD[s].present || ctx_hidden()) { REFUSED(rc, "m_mod_set_batch_size", "ST.refuse|batch"); break; }
        if (tb_account(s, rc, &sn, "set_batch_size")) break;
        if (rc) vfail("BA.set", "BA.set", "m_mod_set_batch_size returned %d", rc);
        MD[s].batch_size = BSZ[op.b]; if (BSZ[op.b]) { MD[s].ever_batched = 1; MD[s].life |= 1; } if (MD[s].nmb) MD[s].ba_unsure = 1; break; }
    case O_BATCH_TMO: {
        m_mod_t *h = handle(s); take_snap(&sn);
        if (op.d == 1) shim_inject_timerfd_fail = 1;      /* fault deviation: the timeout's timer cannot be created during this call */
        rc = m_mod_set_batch_timeout(h, TMO[op.b]);
        int tfail = op.d == 1 && !shim_inject_timerfd_fail; shim_inject_timerfd_fail = 0;
        if (!MD[s].present || ctx_hidden()) { REFUSED(rc, "m_mod_set_batch_timeout", "ST.refuse|batch"); break; }
        if (tfail && rc < 0 && rc != -EAGAIN) {      /* reported failure: no timed batching from now on (events must not be held for a timer that does not exist) */
            MD[s].batch_tmo = 0; mt_del(s, -1); MD[s].batch_fired = 0; MD[s].batch_due = 0; MD[s].life |= 2; if (MD[s].nmb) MD[s].ba_unsure = 1; break; }
        if (tb_account(s, rc, &sn, "set_batch_timeout")) break;
        if (rc) vfail("BA.set", "BA.set|timeout", "m_mod_set_batch_timeout(%lu) returned %d", (unsigned long)TMO[op.b], rc);
        MD[s].batch_tmo = op.b; mt_del(s, -1); MD[s].batch_fired = 0; MD[s].batch_due = 0; if (op.b) { MD[s].ever_batched = 1; MD[s].life |= 2; } if (MD[s].nmb) MD[s].ba_unsure = 1;
        if (op.b) mt_set(s, -1, TMO[op.b], 0, MD[s].st == S_RUNNING);
        break; }
    case O_UNSTASH: {
        m_mod_t *h = handle(s); take_snap(&sn);
        int legal = MD[s].present && !ctx_hidden() && MD[s].st == S_RUNNING;
        size_t n = UNST[op.b]; int before = MD[s].nst, ninv = MD[s].ncb[CB_EVT];
        int su = unstash_slot, sun = unstash_n;
        if (legal) { unstash_slot = s; unstash_n = n > 1000 ? 1000 : (int)n; }
        ssize_t r = m_mod_unstash(h, n);
        int consumed = unstash_slot == -2; unstash_slot = su; unstash_n = sun;
        if (!legal) { REFUSED(r, "m_mod_unstash", "ST.refuse|unstash"); break; }
        int want = (int)(n < (size_t)before ? n : (size_t)before);
        if (ON(R_SH)) {
            if (r != want) vfail("SH.count", "SH.count|ret", "m_mod_unstash(%zu) with %d stashed events returned %zd, expected %d", n, before, r, want);
            if (want > 0 && !consumed) vfail("SH.count", "SH.count|no-invocation", "m_mod_unstash(%zu) with %d stashed events did not invoke the handler", n, before);
            if (want == 0 && MD[s].ncb[CB_EVT] != ninv) vfail("SH.count", "SH.count|spurious", "m_mod_unstash with nothing stashed invoked the handler");
        }
        break; }
    case O_SRC_REG: case O_SRC_DEREG: {
        m_mod_t *h = handle(s); int kind = op.b >> 4, key = op.b & 15, flags = op.d; take_snap(&sn);
        snprintf(what, sizeof what, "%s %s source #%d on %s", op.c == O_SRC_REG ? "register" : "deregister", KN[kind], key, MD[s].name);
        int legal = MD[s].present && !ctx_hidden();
        int idx = -1, freei = -1;
        for (int i = 0; i < MAXSRC; i++) { if (MD[s].src[i].present && MD[s].src[i].kind == kind && MD[s].src[i].key == key) idx = i; if (!MD[s].src[i].present && freei < 0) freei = i; }
        if (op.c == O_SRC_REG) {
            if (freei < 0) { api_depth--; return; }
            if (kind == K_FD && key < 14 && legal && idx < 0) shim_user_fd(UFD[key].rd, (flags & 5) == 1);
            /* user data flagged auto-free: a fresh block, or - registering a present auto-free key again - the very block the present source owns */
            int shared = (flags & 8) && idx >= 0 && (MD[s].src[idx].flags & 8);
            void *heapup = !(flags & 8) ? NULL : shared ? SRCUPH[s][idx] : lg_malloc(8), *prevup = SRCUPH[s][freei];
            SRCUPH[s][freei] = heapup;
            rc = src_call(h, kind, key, 1, flags, SRCUPP(s, freei));
            if (rc) {      /* rejected: whether the library consumed a fresh block is unspecified; a block owned by a registered source must survive (checked by audit) */
                SRCUPH[s][freei] = prevup;
                if (heapup && !shared && lg_is_live(heapup)) lg_free(heapup);
            }
            if (!legal || key >= 14) { REFUSED(rc, what, key == 15 ? "SR.set|bad-param" : key == 14 ? "SR.set|unpollable" : "ST.refuse|src"); if (ON(R_SR)) for (int i = 0; i < NM; i++) audit_srclen(i, what); break; }
            if (tb_account(s, rc, &sn, what)) break;
            if (idx >= 0 && rc == 0 && SRC_MAYBE_GONE(s, idx)) { MD[s].src[idx].present = 0; mt_del(s, idx); idx = -1; }      /* its held event had already taken the one-shot source out of the set */
            if (idx >= 0) { if (rc != -EEXIST) vfail("SR.set", "SR.set|dup", "%s: key already present, returned %d instead of -EEXIST", what, rc); check_unchanged(&sn, what, "SR.set|dup-effect"); if (api_depth == 1) last_refused = 1; break; }
            if (rc) vfail("SR.set", "SR.set|new", "%s: new key, returned %d", what, rc);
            MD[s].src[freei] = (srcrec_t){ 1, kind, key, flags, 0 }; MD[s].life |= 64 << (kind == K_TMR);
            if (kind == K_TMR) mt_set(s, freei, TPER[key], (flags & 2) != 0, MD[s].st == S_RUNNING);
        } else {
            rc = src_call(h, kind, key, 0, 0, NULL);
            if (!legal) { REFUSED(rc, what, "ST.refuse|src"); break; }
            if (kind != K_TASK && tb_account(s, rc, &sn, what)) break;
            if (kind == K_TASK) { if (rc >= 0) vfail("SR.set", "SR.set|task-dereg", "a task source was deregistered (returned %d)", rc); check_unchanged(&sn, what, "SR.set|task-dereg"); if (api_depth == 1) last_refused = 1; break; }
            if (idx < 0) { REFUSED(rc, what, "SR.set|absent"); break; }
            if (rc && SRC_MAYBE_GONE(s, idx)) { break; }      /* already removed when its (held) event was received */
            if (rc) vfail("SR.set", "SR.set|remove", "%s: key present, returned %d", what, rc);
            if (kind == K_FD && (MD[s].src[idx].flags & 5) == 1) UFD[key].open_rd = 0;
            MD[s].src[idx].present = 0; if (kind == K_TMR) mt_del(s, idx);
        }
        break; }
    case O_BUCKET: {
        m_mod_t *h = handle(s); take_snap(&sn);
        if (op.d == 1) shim_inject_timerfd_fail = 1;      /* fault deviation: the refill timer cannot be created during this call */
        rc = m_mod_set_tokenbucket(h, TBCFG[op.b].rate, TBCFG[op.b].burst);
        int tfail = op.d == 1 && !shim_inject_timerfd_fail; shim_inject_timerfd_fail = 0;
        if (!MD[s].present || ctx_hidden()) { REFUSED(rc, "m_mod_set_tokenbucket", "ST.refuse|bucket"); break; }
        if (tfail && rc < 0) {      /* reported failure: whatever the module had before, it must not be left throttled without refill - the monitor goes on with "no bucket" (a later EAGAIN is TB.off) */
            MD[s].tb_prev = 0; MD[s].tb_rate = 0; MD[s].tb_burst = 0; memset(&TBLOG[s], 0, sizeof TBLOG[s]); MD[s].life |= 4; break; }
        if (rc == -EAGAIN && MD[s].tb_rate > 0) { TBLOG[s].refusals++; break; }      /* reconfiguration itself consumes tokens (source registration) */
        if (rc) vfail("TB.set", "TB.set", "m_mod_set_tokenbucket(%d,%d) returned %d", TBCFG[op.b].rate, TBCFG[op.b].burst, rc);
        if (TBCFG[op.b].rate) MD[s].life |= 4;
        MD[s].tb_prev = 0; for (int q = 0; q < NTBCFG; q++) if (MD[s].tb_rate == TBCFG[q].rate && MD[s].tb_burst == TBCFG[q].burst) MD[s].tb_prev = q;
        MD[s].tb_rate = TBCFG[op.b].rate; MD[s].tb_burst = TBCFG[op.b].burst; memset(&TBLOG[s], 0, sizeof TBLOG[s]); TBLOG[s].set_at = shim_now_ns;
        break; }
    /* ------------------------------------------------ environment / user-held */
    case O_ARM: MD[s].armed[op.b >> 5].act = op.b & 31; MD[s].armed[op.b >> 5].arg = op.d; break;
    case O_HANGUP: if (UFD[op.a].wr >= 0) { __real_close(UFD[op.a].wr); UFD[op.a].wr = -1; UFD[op.a].hung = 1; UFD[op.a].hung_seen = 0; } break;      /* the peer closes its end */
    case O_READY: { char c = 'x'; if (__real_write(UFD[op.a].wr, &c, 1) == 1) UFD[op.a].bytes++; break; }
    case O_ADVANCE: if (adv_drains && api_depth == 1) { api_depth--; drain(); api_depth++; } shim_advance(ADV[op.a]); mt_advance(); break;
    case O_INJECT: if (op.a == INJ_CTL_DEL) shim_inject_ctl_del = 1; else if (op.a == INJ_WRITE_EAGAIN) shim_inject_write_eagain = 1 + op.b; else shim_inject_epoll_errno = op.a == INJ_EPOLL_EINTR ? EINTR : EBADF; break;
    case O_RAISE: case O_TOUCH: case O_ENDCHILD: {      /* environment: a signal is raised / a file appears in a watched directory / a watched child exits */
        int kind = op.c == O_RAISE ? K_SGN : op.c == O_TOUCH ? K_PATH : K_PID;
        if (op.c == O_RAISE) raise(SIGS[op.a]);
        else if (op.c == O_TOUCH) { char f[96]; snprintf(f, sizeof f, "%s/f%d", PATHS[op.a], touch_ctr[op.a]++); int fd = open(f, O_CREAT | O_WRONLY, 0600); if (fd >= 0) __real_close(fd); }
        else { if (CHILD[op.a] > 0) { kill(CHILD[op.a], SIGKILL); child_dead[op.a] = 1; siginfo_t si; waitid(P_PID, CHILD[op.a], &si, WEXITED | WNOWAIT); } }
        for (int t = 0; t < NM; t++) for (int i = 0; i < MAXSRC; i++) if (MD[t].src[i].present && MD[t].src[i].kind == kind && MD[t].src[i].key == op.a && MD[t].st == S_RUNNING) MD[t].src[i].fired++;
        break; }
    case O_RELEASE: { int r = retained[op.a]; for (int i = op.a; i < nret - 1; i++) retained[i] = retained[i + 1]; nret--; EV[r].refs--; m_mem_unref((void *)EV[r].p); break; }
    default: vfail("INTERNAL", "INTERNAL", "unknown op %d", op.c);
    }
    if (api_depth == 1 && op.c != O_INJECT) inj_relax();
    api_depth--;
}
#endif
