/* C02 (second part) — mailbox capacity: "fewer messages than its mailbox holds (at least 8192) were pending".
 * Deterministic runs against the real pipe (no enumeration of interleavings: the order is fixed by construction):
 * for N in {1, 100, 8191, 8192}: B tells A N messages with no dispatch in between; every send must be accepted, and
 * dispatching until quiescent must hand A exactly those N messages, each once, in send order. Then N = 8193, 9000 with
 * and without AUTOFREE: the excess may be refused or dropped, but nothing may crash, be delivered twice or out of order, or leak. */
#define _GNU_SOURCE
#include <stdio.h>
#include <stdlib.h>
#include <string.h>
#include <stdint.h>
#define LG_CAP 65536
#include "../engine/ledger.h"
#include <module/mod.h>
#include <module/ctx.h>
#include <module/mem/mem.h>
int m_set_memhook(void *(*)(size_t), void *(*)(size_t, size_t), void (*)(void *));

static char PAY[10000]; static int got[10000], ngot, last = -1, bad_order, dup;
static m_mod_t *A, *B; static void *AF[10000]; static int af_freed[10000], af_mode, nviol;
static void quiet(const m_mod_t *m, const char *f, va_list a) { (void)m; (void)f; (void)a; }
static void on_evt(m_mod_t *m, const m_queue_t *const evts) {
    if (m != A) return;
    m_itr_foreach(evts, { m_evt_t *e = m_itr_get(m_itr); if (e->type != M_SRC_TYPE_PS || e->ps_evt->system) continue;
        int i = af_mode ? *(const int *)e->ps_evt->data : (int)((const char *)e->ps_evt->data - PAY);
        if (i < 0 || i >= 10000) { bad_order++; continue; }
        if (got[i]++) dup++; if (i <= last) bad_order++; last = i; ngot++; });
}
static void free_hook(void *p) { if (af_mode) for (int i = 0; i < 10000; i++) if (AF[i] == p) { af_freed[i]++; AF[i] = NULL; break; } }
static void viol(int n, const char *sig, const char *d) { printf("VIOL {\"harness\":\"c02_flood\",\"config\":\"N=%d autofree=%d\",\"rule\":\"PS.capacity\",\"sig\":\"%s\",\"detail\":\"%s\",\"probe\":-1,\"hex\":\"%d.%d\",\"history\":[\"B tells A %d messages without dispatching, then dispatch until quiescent\"]}\n", n, af_mode, sig, d, n, af_mode, n); nviol++; }
static int run(int n, int af) {
    char d[200]; int before = nviol;
    lg_reset(); lg_free_hook = free_hook; m_set_memhook(lg_malloc, lg_calloc, lg_free);
    memset(got, 0, sizeof got); ngot = 0; last = -1; bad_order = 0; dup = 0; af_mode = af; memset(af_freed, 0, sizeof af_freed); memset(AF, 0, sizeof AF);
    static const m_mod_hook_t hk = { NULL, NULL, on_evt, NULL };
    if (m_ctx_register("c", M_CTX_PERSIST, NULL)) abort(); m_ctx_set_logger(quiet);
    m_mod_register("A", &A, &hk, 0, NULL); m_mod_register("B", &B, &hk, 0, NULL); m_ctx_dispatch();
    int accepted = 0;
    for (int i = 0; i < n; i++) { const void *p = &PAY[i]; if (af) { int *q = lg_malloc(sizeof(int)); *q = i; AF[i] = q; p = q; }
        int rc = m_mod_ps_tell(B, A, p, af ? M_PS_AUTOFREE : 0);
        if (rc == 0) accepted++; else if (i < 8192) { snprintf(d, sizeof d, "tell #%d refused (%d) although fewer than 8192 messages were pending", i, rc); viol(n, "PS.capacity|refused", d); break; } }
    for (int k = 0; k < 20000; k++) if (m_ctx_dispatch() <= 0 && k > n) break;
    int expect_min = n < 8192 ? n : 8192;
    if (ngot < expect_min) { snprintf(d, sizeof d, "%d messages sent with an empty mailbox, only %d handed over", n, ngot); viol(n, "PS.capacity|lost", d); }
    if (ngot > accepted) { snprintf(d, sizeof d, "%d handed over but only %d accepted", ngot, accepted); viol(n, "PS.capacity|ghost", d); }
    if (dup) { snprintf(d, sizeof d, "%d messages handed over twice", dup); viol(n, "PS.capacity|dup", d); }
    if (bad_order) { snprintf(d, sizeof d, "%d messages out of send order", bad_order); viol(n, "PS.capacity|order", d); }
    for (int i = 0; i < expect_min && i < n; i++) if (!got[i]) { snprintf(d, sizeof d, "message #%d (within the first 8192) never handed over", i); viol(n, "PS.capacity|lost", d); break; }
    m_ctx_quit(0); m_ctx_dispatch(); m_ctx_deregister(); m_mem_unref(A); m_mem_unref(B);
    if (af) for (int i = 0; i < n; i++) if (AF[i]) { snprintf(d, sizeof d, "auto-free payload #%d never released (delivered %d times)", i, got[i]); viol(n, "PS.capacity|af-leak", d); break; }
    if (af) for (int i = 0; i < n; i++) if (af_freed[i] > 1) { snprintf(d, sizeof d, "auto-free payload #%d released %d times", i, af_freed[i]); viol(n, "PS.capacity|af-twice", d); break; }
    if (lg_err) viol(n, "LG.mem|bad-free", "double or foreign free");
    if (lg_live) { snprintf(d, sizeof d, "%d allocations outstanding after teardown", lg_live); viol(n, "LG.mem|leak", d); }
    lg_free_hook = NULL;
    return nviol - before;
}
int main(int argc, char **argv) {
    static const int NS[] = { 1, 100, 8191, 8192, 8193, 9000 }; int runs = 0;
    if (argc > 2 && !strcmp(argv[1], "--replay")) { int n, af; if (sscanf(argv[2], "%d.%d", &n, &af) == 2) { run(n, af); printf("REPLAY %s\n", nviol ? "VIOLATION" : "ok"); return nviol != 0; } }
    for (int af = 0; af < 2; af++) for (unsigned i = 0; i < sizeof NS / sizeof *NS; i++) { run(NS[i], af); runs++; }
    printf("STAT {\"harness\":\"c02_flood\",\"config\":\"real pipe capacity\",\"states\":%d,\"transitions\":%d,\"executions\":%d,\"distinct_outcomes\":%d,\"violations\":%d,\"capped\":0,\"samples\":[[\"B tells A 8192 messages, dispatch until quiescent\"]]}\n", runs, 2 * 8192 + 2 * 9000, runs, runs, nviol);
    return nviol != 0;
}
