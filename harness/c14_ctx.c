/* C14 — contexts on different threads are independent; modules are thread-confined (schedx; TSan and ASan builds).
 * Part 1: N threads each run their own context program (wide or narrow) under every interleaving within the preemption
 *         budget (scheduling points: between API calls, plus every pthread operation inside the library);
 *         oracle: TSan/ASan per schedule + per-context observation log identical to the same program run alone.
 * Part 2 (--foreign 1): a module created by thread 0 is operated from thread 1 (holding another context / none):
 *         every call must fail with a permission error and leave the module untouched.
 * Config: --threads N --prog wide|narrow|task --foreign 0|1|2 */
#define _GNU_SOURCE
#include "schedx.h"
#include <stdio.h>
#include <stdlib.h>
#include <string.h>
#include <errno.h>
#include <unistd.h>
#include <pthread.h>
#include <module/mod.h>
#include <module/ctx.h>
#include <module/mem/mem.h>

const char *hx_name = "c14_ctx";
static int NTHR = 2, FOREIGN = 0; static const char *PROG = "narrow";
static char cfg[160];

#define MAXLOG 256
typedef struct { uint64_t log[MAXLOG]; int n; uint64_t h; } obs_t;
static obs_t OBS[4], SOLO[4];
static __thread int me;                 /* program index of the calling thread */
static __thread obs_t *mylog;
static void rec(uint64_t v) { if (mylog->n < MAXLOG) mylog->log[mylog->n++] = v; mylog->h = (mylog->h ^ v) * 0x100000001B3ull; }
static void step(void) { if (sch_active()) sch_yield(); }

static void quiet_logger(const m_mod_t *m, const char *fmt, va_list a) { (void)m; (void)fmt; (void)a; }

typedef struct { int id; int started, stopped, evts; m_mod_t *h; } um_t;
static __thread um_t UM[2];
static bool on_start(m_mod_t *m) { um_t *u = (um_t *)m_mod_userdata(m); u->started++; rec(100 + u->id); return true; }
static void on_stop(m_mod_t *m) { um_t *u = (um_t *)m_mod_userdata(m); u->stopped++; rec(200 + u->id); }
static int task_done[4];
static int park_in_cb;          /* --foreign 3|4: the owner waits for the foreign thread INSIDE a callback of the module under attack */
static void park_now(void);
static void on_evt(m_mod_t *m, const m_queue_t *const evts) {
    um_t *u = (um_t *)m_mod_userdata(m);
    if (park_in_cb && u->id == 0) { park_in_cb = 0; park_now(); }
    m_itr_foreach(evts, {
        m_evt_t *e = m_itr_get(m_itr);
        u->evts++;
        if (e->type == M_SRC_TYPE_PS) rec(1000 + u->id * 100 + (e->ps_evt->system ? 50 : 0) + (e->ps_evt->topic ? (int)strlen(e->ps_evt->topic) : 0) + (e->ps_evt->data ? *(const char *)e->ps_evt->data : 0));
        else if (e->type == M_SRC_TYPE_FD) { char c; if (read(e->fd_evt->fd, &c, 1) == 1) rec(2000 + u->id * 100 + c); }
        else if (e->type == M_SRC_TYPE_TASK) { rec(3000 + u->id * 100 + e->task_evt->retval); task_done[me] = 1; }
        else rec(4000 + e->type);
    });
}
static void on_evt2(m_mod_t *m, const m_queue_t *const evts) { rec(77); on_evt(m, evts); }
static int task_fn(void *up) { return 40 + (int)(intptr_t)up; }

#define CALL(expr) do { long r_ = (long)(expr); rec(0x10000 + (uint64_t)(r_ & 0xffff)); step(); } while (0)

static void program(int idx) {
    char cname[8]; snprintf(cname, sizeof cname, "ctx%d", idx);
    static const char PAYA = 'a', PAYB = 'b';
    m_mod_hook_t hk = { on_start, NULL, on_evt, on_stop };
    UM[0] = (um_t){ idx * 2, 0, 0, 0, NULL }; UM[1] = (um_t){ idx * 2 + 1, 0, 0, 0, NULL };
    CALL(m_ctx_register(cname, M_CTX_PERSIST | M_CTX_NAME_DUP, NULL));
    CALL(m_ctx_set_logger(quiet_logger));
    CALL(m_mod_register("A", &UM[0].h, &hk, 0, &UM[0]));
    CALL(m_mod_register("B", &UM[1].h, &hk, 0, &UM[1]));
    CALL(m_ctx_dispatch());                                   /* loop start: both modules started */
    CALL(m_mod_ps_subscribe(UM[1].h, "top", 0, NULL));
    CALL(m_mod_ps_publish(UM[0].h, "top", &PAYA, 0));
    CALL(m_mod_ps_tell(UM[1].h, UM[0].h, &PAYB, 0));
    CALL(m_ctx_dispatch());
    if (!strcmp(PROG, "wide") || !strcmp(PROG, "task")) {
        int p[2]; if (pipe(p)) abort();
        CALL(m_mod_src_register_fd(UM[0].h, p[0], 0, NULL));
        if (write(p[1], "x", 1) != 1) abort();
        CALL(m_ctx_dispatch());
        CALL(m_mod_set_batch_size(UM[1].h, 2));
        CALL(m_mod_ps_tell(UM[0].h, UM[1].h, &PAYA, 0));
        CALL(m_mod_ps_tell(UM[0].h, UM[1].h, &PAYB, 0));
        CALL(m_ctx_dispatch()); CALL(m_ctx_dispatch());
        CALL(m_mod_become(UM[0].h, on_evt2));
        CALL(m_mod_ps_tell(UM[1].h, UM[0].h, &PAYA, 0));
        CALL(m_ctx_dispatch());
        CALL(m_mod_unbecome(UM[0].h));
        CALL(m_mod_pause(UM[1].h)); CALL(m_mod_resume(UM[1].h));
        m_ctx_stats_t st; CALL(m_ctx_stats(&st)); rec(st.running_modules);
        m_mod_stats_t ms; CALL(m_mod_stats(UM[0].h, &ms)); rec(ms.sent_msgs);
        CALL(m_ctx_dump()); CALL(m_mod_dump(UM[0].h)); CALL(m_mod_log(UM[0].h, "hello %d\n", idx));
        CALL(m_ctx_len());
        CALL(m_mod_src_deregister_fd(UM[0].h, p[0]));
        close(p[0]); close(p[1]);
    }
    if (!strcmp(PROG, "task")) {
        m_src_task_t tk = { 1, task_fn };
        task_done[idx] = 0;
        CALL(m_mod_src_register_task(UM[0].h, &tk, 0, (void *)(intptr_t)idx));
        for (int i = 0; i < 200 && !task_done[idx]; i++) { m_ctx_dispatch(); if (sch_active()) sch_pass(); else usleep(200); }
        rec(task_done[idx] ? 555 : 666);
    }
    CALL(m_ctx_dispatch());
    CALL(m_mod_stop(UM[1].h));
    CALL(m_mod_deregister(&UM[0].h));
    CALL(m_ctx_quit(3 + idx));
    CALL(m_ctx_dispatch());                                   /* loop stop: returns the quit code */
    CALL(m_mod_deregister(&UM[1].h));
    CALL(m_ctx_deregister());
    rec(UM[0].started * 1000 + UM[0].stopped * 100 + UM[1].started * 10 + UM[1].stopped);
}

/* ---- part 2: foreign-thread calls ---- */
static pthread_mutex_t hs_mx = PTHREAD_MUTEX_INITIALIZER; static pthread_cond_t hs_cv = PTHREAD_COND_INITIALIZER;
static int hs_stage; static m_mod_t *shared_mod, *shared_other;
static void hs_set(int v) { pthread_mutex_lock(&hs_mx); hs_stage = v; pthread_cond_broadcast(&hs_cv); pthread_mutex_unlock(&hs_mx); }
static void hs_wait(int v) { pthread_mutex_lock(&hs_mx); while (hs_stage < v) pthread_cond_wait(&hs_cv, &hs_mx); pthread_mutex_unlock(&hs_mx); }
static void park_now(void) { hs_set(1); hs_wait(2); }
static void owner_thread(void) {
    m_mod_hook_t hk = { on_start, NULL, on_evt, on_stop };
    UM[0] = (um_t){ 0, 0, 0, 0, NULL }; UM[1] = (um_t){ 1, 0, 0, 0, NULL };
    if (m_ctx_register("owner", M_CTX_PERSIST, NULL)) sch_fail("TC.setup", "TC.setup", "ctx_register failed");
    m_ctx_set_logger(quiet_logger);
    m_mod_register("A", &UM[0].h, &hk, 0, &UM[0]); m_mod_register("B", &UM[1].h, &hk, 0, &UM[1]);
    m_ctx_dispatch();
    m_mod_ps_subscribe(UM[0].h, "top", 0, NULL);
    shared_mod = UM[0].h; shared_other = UM[1].h;
    ssize_t srcs = m_mod_src_len(UM[0].h, M_SRC_TYPE_END);
    if (FOREIGN >= 3) {         /* the foreign calls arrive while the owner executes A's own event handler */
        static const char PAYP = 'p'; park_in_cb = 1;
        m_mod_ps_tell(UM[0].h, UM[0].h, &PAYP, 0);
        m_ctx_dispatch();
        if (park_in_cb) sch_fail("TC.setup", "TC.setup", "the parking message was not delivered");
    } else {
    hs_set(1);                  /* handle published */
    hs_wait(2);                 /* foreign thread done */
    }
    /* nothing may have changed */
    if (!m_mod_is(UM[0].h, M_MOD_RUNNING)) sch_fail("TC.effect", "TC.effect|state", "a foreign-thread call changed the module's state");
    if (m_mod_src_len(UM[0].h, M_SRC_TYPE_END) != srcs) sch_fail("TC.effect", "TC.effect|sources", "a foreign-thread call changed the module's sources");
    if (UM[0].stopped || UM[0].started != 1) sch_fail("TC.effect", "TC.effect|callbacks", "a foreign-thread call ran the module's callbacks");
    int before = UM[0].evts + UM[1].evts;
    for (int i = 0; i < 3; i++) m_ctx_dispatch();
    if (UM[0].evts + UM[1].evts != before) sch_fail("TC.effect", "TC.effect|message", "a message sent from a foreign thread/context was delivered");
    if (m_ctx_len() != 2) sch_fail("TC.effect", "TC.effect|len", "module count changed");
    m_ctx_quit(0); m_ctx_dispatch(); m_ctx_deregister();
    if (UM[0].h) m_mem_unref(UM[0].h); if (UM[1].h) m_mem_unref(UM[1].h);
}
#define FCALL(name, expr) do { long r_ = (long)(expr); if (!(r_ == -EPERM || r_ == -EACCES)) sch_fail("TC.perm", "TC.perm|" name, name " from a foreign thread returned %ld, expected a permission error", r_); step(); } while (0)
static void foreign_thread(int with_ctx) {
    static const char PAY = 'z'; um_t mine = { 9, 0, 0, 0, NULL };
    m_mod_hook_t hk = { on_start, NULL, on_evt, on_stop };
    if (with_ctx) { if (m_ctx_register("foreign", M_CTX_PERSIST, NULL)) sch_fail("TC.setup", "TC.setup", "ctx_register failed"); m_ctx_set_logger(quiet_logger); m_mod_register("A", &mine.h, &hk, 0, &mine);   /* same name as the foreign module on purpose */ m_ctx_dispatch(); }
    hs_wait(1);
    m_mod_t *m = shared_mod, *o = shared_other;
    FCALL("m_mod_start", m_mod_start(m)); FCALL("m_mod_pause", m_mod_pause(m)); FCALL("m_mod_resume", m_mod_resume(m)); FCALL("m_mod_stop", m_mod_stop(m));
    { m_mod_t *t = m; FCALL("m_mod_deregister", m_mod_deregister(&t)); }
    FCALL("m_mod_ps_tell", m_mod_ps_tell(m, o, &PAY, 0)); FCALL("m_mod_ps_publish", m_mod_ps_publish(m, "top", &PAY, 0)); FCALL("m_mod_ps_poisonpill", m_mod_ps_poisonpill(m, o));
    FCALL("m_mod_ps_subscribe", m_mod_ps_subscribe(m, "x", 0, NULL)); FCALL("m_mod_ps_unsubscribe", m_mod_ps_unsubscribe(m, "top"));
    FCALL("m_mod_become", m_mod_become(m, on_evt2)); FCALL("m_mod_unbecome", m_mod_unbecome(m));
    FCALL("m_mod_unstash", m_mod_unstash(m, 1)); FCALL("m_mod_set_batch_size", m_mod_set_batch_size(m, 2)); FCALL("m_mod_set_batch_timeout", m_mod_set_batch_timeout(m, 1000000));
    FCALL("m_mod_set_tokenbucket", m_mod_set_tokenbucket(m, 1, 1));
    { m_src_tmr_t t = { CLOCK_MONOTONIC, 1000000 }; FCALL("m_mod_src_register_tmr", m_mod_src_register_tmr(m, &t, 0, NULL)); }
    FCALL("m_mod_src_register_fd", m_mod_src_register_fd(m, 0, 0, NULL)); FCALL("m_mod_src_deregister_fd", m_mod_src_deregister_fd(m, 0));
    FCALL("m_mod_src_len", m_mod_src_len(m, M_SRC_TYPE_END)); FCALL("m_mod_dump", m_mod_dump(m)); FCALL("m_mod_log", m_mod_log(m, "x")); { m_mod_stats_t st; FCALL("m_mod_stats", m_mod_stats(m, &st)); }
    /* getters still work */
    if (!m_mod_name(m) || strcmp(m_mod_name(m), "A")) sch_fail("TC.getter", "TC.getter", "m_mod_name from a foreign thread failed");
    if (!m_mod_is(m, M_MOD_RUNNING)) sch_fail("TC.getter", "TC.getter", "m_mod_is from a foreign thread failed");
    if (with_ctx) {      /* a message cannot be addressed to a module of another context */
        long r = m_mod_ps_tell(mine.h, m, &PAY, 0);
        if (r >= 0) sch_fail("TC.perm", "TC.perm|cross-ctx-tell", "tell to a module of another context returned %ld", r);
        r = m_mod_ps_poisonpill(mine.h, m);
        if (r >= 0) sch_fail("TC.perm", "TC.perm|cross-ctx-pill", "poisonpill to a module of another context returned %ld", r);
        if (m_mod_lookup(mine.h, "A") == m) sch_fail("TC.perm", "TC.perm|lookup", "lookup found a module of another context");
    }
    hs_set(2);
    if (with_ctx) { m_ctx_quit(0); m_ctx_dispatch(); m_mod_deregister(&mine.h); m_ctx_deregister(); }
}

static void *thr_main(void *p) {
    me = (int)(intptr_t)p; mylog = &OBS[me]; mylog->n = 0; mylog->h = 0xcbf29ce484222325ull;
    if (FOREIGN) { if (me == 0) owner_thread(); else foreign_thread(FOREIGN == 1 || FOREIGN == 3); }
    else program(me);
    return NULL;
}

void hx_main(void) {
    pthread_t th[4];
    hs_stage = 0;
    for (int i = 1; i < NTHR; i++) pthread_create(&th[i], NULL, thr_main, (void *)(intptr_t)i);
    thr_main((void *)(intptr_t)0);
    for (int i = 1; i < NTHR; i++) pthread_join(th[i], NULL);
}
void hx_final(void) {
    if (FOREIGN) { sch_obs(1); return; }
    for (int i = 0; i < NTHR; i++) {
        if (OBS[i].n != SOLO[i].n || OBS[i].h != SOLO[i].h) {
            int k = 0; while (k < OBS[i].n && k < SOLO[i].n && OBS[i].log[k] == SOLO[i].log[k]) k++;
            sch_fail("IND.log", "IND.log", "context %d observed something different from the same program run alone: first difference at observation %d (%#llx vs %#llx alone)", i, k,
                     (unsigned long long)(k < OBS[i].n ? OBS[i].log[k] : 0), (unsigned long long)(k < SOLO[i].n ? SOLO[i].log[k] : 0));
        }
        sch_obs(OBS[i].h);
    }
}
void hx_config(int argc, char **argv) {
    for (int i = 1; i < argc - 1; i++) {
        if (!strcmp(argv[i], "--threads")) NTHR = atoi(argv[i + 1]);
        if (!strcmp(argv[i], "--prog")) PROG = argv[i + 1];
        if (!strcmp(argv[i], "--foreign")) FOREIGN = atoi(argv[i + 1]);
    }
    if (NTHR > 4) NTHR = 4;
    if (FOREIGN) NTHR = 2;
    snprintf(cfg, sizeof cfg, "threads=%d prog=%s foreign=%s", NTHR, PROG, FOREIGN == 0 ? "no" : FOREIGN == 1 ? "from-thread-with-other-context" : FOREIGN == 2 ? "from-thread-without-context" : FOREIGN == 3 ? "from-thread-with-other-context-while-owner-is-in-the-module's-callback" : "from-thread-without-context-while-owner-is-in-the-module's-callback");
    /* reference logs: every program run alone (scheduler inactive), in this very process before any exploration */
    if (!FOREIGN) for (int i = 0; i < NTHR; i++) { me = i; mylog = &SOLO[i]; mylog->n = 0; mylog->h = 0xcbf29ce484222325ull; program(i); }
}
const char *hx_config_str(void) { return cfg; }
int main(int argc, char **argv) { return sch_main(argc, argv); }
