/* core world — part 6: profiles (alphabet + rule groups per property), enabled ops, canonical state, probes */
#ifndef WORLD_ENUM_H
#define WORLD_ENUM_H
#include "world_ops.h"

enum { G_LIFE = 1, G_REG = 2, G_MSG = 4, G_SUB = 8, G_PILL = 16, G_ARM = 32, G_CTX = 64, G_BATCH = 128, G_STASH = 256, G_BECOME = 512,
       G_SRC = 1024, G_ENV = 2048, G_SYS = 4096, G_REFS = 8192, G_FAULT = 16384, G_TICK = 32768, G_ILLEGAL = 65536, G_AUTOFREE = 131072,
       G_QUIT = 262144, G_CTXCALL = 524288, G_PRIO = 1048576, G_BCAST = 2097152, G_BUCKET = 4194304, G_READY = 8388608, G_BADPARAM = 16777216, G_EPOLLFAULT = 33554432, G_CTLFAULT = 67108864, G_ENVX = 134217728, G_SUBDUP = 268435456, G_REREG = 536870912, G_TFAULT = 1073741824 /* fault deviation: the timer of a batch timeout / token bucket cannot be created */ };
typedef struct {
    const char *prop; int nmods; unsigned groups, rules; int maxdev;
    const char *prelude;                 /* hex ops applied at reset (not counted in depth) */
    unsigned evals;                      /* bitmask of eval modes offered at registration: 1 absent, 2 true, 4 false */
    int refuse_start;                    /* offer on_start returning false */
    unsigned flagset;                    /* bitmask over MFLAGS indices */
    unsigned acts;                       /* bitmask over A_* offered as armed actions */
    unsigned armcbs;                     /* bitmask over CB_* that can be armed */
    unsigned pats, topics;               /* bitmask of subscription patterns / publish topics */
    unsigned kinds;                      /* bitmask of source kinds (G_SRC) */
    unsigned srcflags;                   /* bitmask of source flag combinations offered: bit f = flags value f (1 AUTOCLOSE, 2 ONESHOT, 4 DUP, 8 AUTOFREE user data) */
    int keylimit;                        /* keys per source kind (0 = the whole menu) */
    unsigned variants;                   /* 1: one-shot subscriptions; 2: context name/userdata ownership flags; 4: DUP path sources; 8: two tick periods; 16: the peer of a user descriptor may hang up */
} profile_t;
static profile_t P;

static int ndev_of(const hist_t *h) { int n = 0; for (int i = 0; i < h->n; i++) if (h->ops[i].c == O_ARM || h->ops[i].c == O_INJECT) n++; return n; }
static int prelude_len;

#define EMIT(...) do { if (n < max) o[n++] = (op_t){__VA_ARGS__}; } while (0)
static int enabled_ops(op_t *o, int max) {
    int n = 0; int dev = ndev_of(&cur_hist);
    int NMO = P.nmods;
    if (P.groups & G_CTX) {
        if (!CX.exists) { EMIT(O_CTX_REG, 0, 0); EMIT(O_CTX_REG, 0, 1); if (P.variants & 2) { EMIT(O_CTX_REG, 0, 0, 1); EMIT(O_CTX_REG, 0, 1, 2); } }
        else if (P.groups & G_ILLEGAL) EMIT(O_CTX_REG, 0, 0);
        if (CX.exists || (P.groups & G_ILLEGAL)) EMIT(O_CTX_DEREG);
        if (CX.exists && !CX.finalized) EMIT(O_FINALIZE);
    }
    /* task sources would run on pool threads (real concurrency): in this sequential world a module holding one is never made RUNNING */
    int task_idle = 0; for (int s = 0; s < NM; s++) if (MD[s].present && MD[s].st == S_IDLE) for (int i = 0; i < MAXSRC; i++) if (MD[s].src[i].present && MD[s].src[i].kind == K_TASK) task_idle = 1;
    if ((CX.exists || (P.groups & G_CTX)) && !(task_idle && !CX.looping) && !(task_idle && CX.looping)) EMIT(O_DISPATCH);
    if ((P.groups & G_QUIT) && (CX.looping ? !CX.quit : (P.groups & G_ILLEGAL) != 0)) { EMIT(O_QUIT, 1); }
    if ((P.groups & G_TICK) && CX.exists) { if (P.variants & 8) { for (int t = 0; t < 3; t++) if (t != CX.tick) EMIT(O_SET_TICK, t); } else EMIT(O_SET_TICK, !CX.tick); }      /* variants 8: two periods (4 ms, 12 ms), else on/off */
    if ((P.groups & G_CTXCALL)) for (int k = 0; k < 6; k++) EMIT(O_CTXCALL, k);
    if ((P.groups & G_REG) && (CX.exists || (P.groups & G_CTX))) EMIT(O_REG, 0, 8, 0);      /* registration of a run-time loaded module whose file does not exist: fails after the module object was built */
    for (int s = 0; s < NMO; s++) {
        mod_t *m = &MD[s]; int have = handle(s) != NULL;
        if ((P.groups & G_REG) && (CX.exists || (P.groups & G_CTX)) && (!m->present ? (m->extra == 0) : (P.groups & G_ILLEGAL) != 0)) {
            for (int e = 0; e < 3; e++) if (P.evals & (1u << e)) for (int sr = 1; sr >= (P.refuse_start ? 0 : 1); sr--)
                for (int f = 0; f < 8; f++) if (P.flagset & (1u << f)) { if (m->present && (e || !sr || (f && f != 1 && f < 7))) continue; if (m->present && m->extra) continue; EMIT(O_REG, s, e * 2 + sr, f); }
        }
        if (!have) continue;
        int st = m->st, ill = (P.groups & G_ILLEGAL) != 0;
        if (P.groups & G_LIFE) {
            int hastask = 0; for (int i = 0; i < MAXSRC; i++) if (m->src[i].present && m->src[i].kind == K_TASK) hastask = 1;
            if ((ill || st == S_IDLE || st == S_STOPPED) && !hastask) EMIT(O_START, s);
            if (ill || st == S_RUNNING) EMIT(O_PAUSE, s);
            if ((ill || st == S_PAUSED) && !hastask) EMIT(O_RESUME, s);
            if (ill || st == S_RUNNING || st == S_PAUSED) EMIT(O_STOP, s);
            if (m->present || ill) EMIT(O_DEREG, s);
            if (m->present && m->evalmode == 2) EMIT(O_SET_EVAL, s);
        }
        if (P.groups & G_REFS) { if (m->extra < 1 && m->present) EMIT(O_REF, s); if (m->extra > 0) EMIT(O_UNREF, s); }
        if (!m->present && !ill) continue;
        if (P.groups & G_MSG) for (int t = 0; t < NMO; t++) if (handle(t) && (MD[t].present || ill)) {
            EMIT(O_TELL, s, t, 0); if (P.groups & G_AUTOFREE) EMIT(O_TELL, s, t, 1);
        }
        if (P.groups & G_SUB) {
            for (int tp = 0; tp < NTOPIC; tp++) if (P.topics & (1u << tp)) { EMIT(O_PUB, s, tp, 0); if ((P.groups & G_AUTOFREE) && tp < T_CTX_STARTED) EMIT(O_PUB, s, tp, 1); }
            for (int p = 0; p < NPAT; p++) if (P.pats & (1u << p)) {
                if (!m->sub[p].present || ill) {
                    EMIT(O_SUB, s, p, PR_NORM);
                    if (P.groups & G_PRIO) { EMIT(O_SUB, s, p, PR_LOW); EMIT(O_SUB, s, p, PR_HIGH); }
                    if (P.variants & 1) EMIT(O_SUB, s, p, PR_NORM | 4);      /* one-shot subscription */
                }
                if (P.groups & G_SUBDUP) {            /* M_SRC_DUP topics, and re-subscription with other flags (replacement path) */
                    EMIT(O_SUB, s, p, PR_NORM | 16); EMIT(O_SUB, s, p, PR_HIGH | 16); EMIT(O_SUB, s, p, PR_NORM | 32); if (m->sub[p].present && m->sub[p].af) { EMIT(O_SUB, s, p, m->sub[p].prio | (m->sub[p].dup ? 16 : 0) | 32 | 64); EMIT(O_SUB, s, p, (m->sub[p].prio == PR_NORM ? PR_HIGH : PR_NORM) | 32 | 64); }
                    if (m->sub[p].present && !ill) EMIT(O_SUB, s, p, m->sub[p].prio == PR_NORM && !m->sub[p].dup ? PR_HIGH : PR_NORM);
                }
                if (m->sub[p].present || ill) EMIT(O_UNSUB, s, p);
            }
        }
        if (P.groups & G_BCAST) { EMIT(O_BCAST, s, 0, 0); if (P.groups & G_AUTOFREE) EMIT(O_BCAST, s, 0, 1); }
        if (P.groups & G_PILL) for (int t = 0; t < NMO; t++) if (handle(t) && (MD[t].st == S_RUNNING || ill)) EMIT(O_PILL, s, t);
        if (P.groups & G_BECOME) { if (st == S_RUNNING || ill) { for (int h = 1; h <= 2; h++) if (m->nhs < 3) EMIT(O_BECOME, s, h); EMIT(O_UNBECOME, s); } }
        if (P.groups & G_BATCH) { for (int b = 0; b < 4; b++) if (BSZ[b] != m->batch_size || b == 0) EMIT(O_BATCH_SIZE, s, b);   /* re-setting 0 is generated too: it must be a no-op */ for (int t = 0; t < 2; t++) if (t != m->batch_tmo) { EMIT(O_BATCH_TMO, s, t); if (t && st == S_RUNNING && (P.groups & G_TFAULT)) EMIT(O_BATCH_TMO, s, t, 1); } }
        if (P.groups & G_SRC) for (int kd = 0; kd < NKIND; kd++) if (P.kinds & (1u << kd)) {
            for (int key = 0; key < (P.keylimit && P.keylimit < NKEYS[kd] ? P.keylimit : NKEYS[kd]); key++) {
                int idx = find_src(s, kd, key);
                if (kd == K_FD && !UFD[key].open_rd) continue;
                if (kd == K_TASK && (st == S_RUNNING || st == S_ZOMBIE)) continue;          /* a task would start running on a pool thread: kept out of the sequential world */
                if (idx >= 0 && kd == K_FD && (m->src[idx].flags & 4)) continue;
                if (idx < 0 || ill || (P.groups & G_REREG)) for (int f = 0; f < 16; f++) if ((P.srcflags & (1u << f)) || (f == 4 && kd == K_PATH && (P.variants & 4))) {      /* G_REREG: a present key is registered again (must fail with EEXIST and change nothing) */
                    if (idx >= 0 && (f & 4)) continue;
                    if ((f & 1) && kd != K_FD) continue;
                    if ((f & 4) && kd != K_FD && kd != K_PATH) continue;      /* DUP: descriptors and path strings */
                    if ((f & 8) && kd != K_FD && kd != K_TMR) continue;      /* auto-free user data: one code path for all kinds */
                    if ((P.groups & G_ENVX) && kd >= K_SGN && kd <= K_PID) { int others = 0; for (int t = 0; t < NM; t++) if (t != s && find_src(t, kd, key) >= 0) others = 1; if (others) continue;      /* one watcher per signal/path/pid: a signal is consumed by the first reader */
                        if (kd == K_PID && (!(f & 2) || child_dead[key])) continue; }      /* an exited process stays readable for ever: one-shot only */
                    if (kd == K_FD) { int others = 0, granted = 0; for (int t = 0; t < NM; t++) for (int i = 0; i < MAXSRC; i++) if (MD[t].src[i].present && MD[t].src[i].kind == K_FD && MD[t].src[i].key == key) { others++; granted |= MD[t].src[i].flags & 1; }
                        if (idx < 0 && others > 0) continue;      /* one user descriptor is given to one module at a time (one epoll set cannot hold it twice; two readers of one pipe race for its bytes) */
                        if (idx < 0 && ((f & 1) ? others > 0 : granted)) continue; }
                    EMIT(O_SRC_REG, s, kd * 16 + key, f);
                }
                if (idx >= 0 && kd == K_FD && (m->src[idx].flags & 4)) continue;      /* a DUP source is keyed by the library's private duplicate: how to name it is unspecified */
                if (idx >= 0 || ill) EMIT(O_SRC_DEREG, s, kd * 16 + key);
            }
            if (P.groups & G_BADPARAM) EMIT(O_SRC_REG, s, kd * 16 + 15, 0);
            if ((P.groups & G_BADPARAM) && kd == K_FD && st == S_RUNNING) EMIT(O_SRC_REG, s, kd * 16 + 14, 0);      /* a descriptor the poll set refuses: rejected at once on a RUNNING module */
        }
        if ((P.groups & G_BUCKET)) for (int b = 0; b < NTBCFG; b++) if (TBCFG[b].rate != m->tb_rate || TBCFG[b].burst != m->tb_burst) { EMIT(O_BUCKET, s, b); if (TBCFG[b].rate && b <= 3 && st == S_RUNNING && (P.groups & G_TFAULT)) EMIT(O_BUCKET, s, b, 1); }
        if (P.groups & G_STASH) for (int k = 0; k < 5; k++) if (st == S_RUNNING || (ill && k == 0)) EMIT(O_UNSTASH, s, k);
        if ((P.groups & G_ARM) && dev < P.maxdev && m->present) for (int cb = 0; cb < NCB; cb++) if ((P.armcbs & (1u << cb)) && !m->armed[cb].act) {
            if (cb == CB_EVAL && !m->evalmode) continue;
            for (int a = 1; a < A_MAX; a++) if (P.acts & (1u << a)) {
                /* what module calls do while a callback of a DENY_CTX module executes is unspecified: only context calls are generated there */
                if (mflag(s, M_MOD_DENY_CTX) && a != A_CTXCALL && a != A_QUIT && a != A_ERRNO) continue;
                switch (a) {
                case A_STOP: case A_DEREG: case A_PAUSE: for (int t = 0; t < NMO; t++) { if (a == A_STOP && t == s && cb == CB_STOP) continue; EMIT(O_ARM, s, cb * 32 + a, t); } break;
                case A_START: case A_RESUME: for (int t = 0; t < NMO; t++) if (t != s || (a == A_START && (cb == CB_EVAL || cb == CB_STOP))) EMIT(O_ARM, s, cb * 32 + a, t); break;      /* a module starting itself: from its evaluation callback, or again from its stop callback */
                case A_TELL: case A_PILL: for (int t = 0; t < NMO; t++) EMIT(O_ARM, s, cb * 32 + a, t); break;
                case A_PUB: for (int tp = 0; tp < NTOPIC; tp++) if (P.topics & (1u << tp)) EMIT(O_ARM, s, cb * 32 + a, tp); break;
                case A_QUIT: EMIT(O_ARM, s, cb * 32 + a, 1); break;
                case A_TICK: EMIT(O_ARM, s, cb * 32 + a, 0); break;
                case A_SUB: case A_UNSUB: for (int p = 0; p < NPAT; p++) if (P.pats & (1u << p)) EMIT(O_ARM, s, cb * 32 + a, p); break;
                case A_STASH: if (cb == CB_EVT) for (int k = 0; k < 3; k++) EMIT(O_ARM, s, cb * 32 + a, k); break;
                case A_UNSTASH: if (cb == CB_EVT) for (int k = 0; k < 3; k++) EMIT(O_ARM, s, cb * 32 + a, k); break;
                case A_BECOME: for (int h = 1; h <= 2; h++) EMIT(O_ARM, s, cb * 32 + a, h); break;
                case A_UNBECOME: case A_BCAST: EMIT(O_ARM, s, cb * 32 + a, 0); break;
                case A_RETAIN: if (cb == CB_EVT) EMIT(O_ARM, s, cb * 32 + a, 0); break;
                case A_SRCDEREG: if (cb == CB_EVT) { EMIT(O_ARM, s, cb * 32 + a, 0); EMIT(O_ARM, s, cb * 32 + a, 1); } break;
                case A_ERRNO: for (int k = 0; k < 4; k++) EMIT(O_ARM, s, cb * 32 + a, k); break;
                case A_CTXCALL: for (int k = 0; k < 6; k++) EMIT(O_ARM, s, cb * 32 + a, k); EMIT(O_ARM, s, cb * 32 + A_QUIT, 1); break;
                }
            }
        }
    }
    if (P.groups & G_ENV) { for (int k = 0; k < 3; k++) if (shim_timers_armed() || 1) { if (k < 2 || (P.groups & G_TICK)) EMIT(O_ADVANCE, k); } }
    if ((P.groups & G_FAULT) && dev < P.maxdev) { if (!shim_inject_write_eagain) for (int k = 0; k < P.nmods; k++) EMIT(O_INJECT, INJ_WRITE_EAGAIN, k); }
    if ((P.groups & G_CTLFAULT) && dev < P.maxdev && !shim_inject_ctl_del) EMIT(O_INJECT, INJ_CTL_DEL);
    if ((P.groups & G_EPOLLFAULT) && dev < P.maxdev && CX.looping && !shim_inject_epoll_errno) { EMIT(O_INJECT, INJ_EPOLL_EINTR); EMIT(O_INJECT, INJ_EPOLL_EBADF); }
    if ((P.groups & G_READY) && (P.variants & 16)) for (int k = 0; k < NUFD; k++) if (UFD[k].open_rd && UFD[k].wr >= 0) { int used = 0; for (int t = 0; t < NM; t++) if (find_src(t, K_FD, k) >= 0) used = 1; if (used) EMIT(O_HANGUP, k); }
    if (P.groups & G_READY) for (int k = 0; k < NUFD; k++) if (UFD[k].open_rd && UFD[k].bytes < 2 && UFD[k].wr >= 0) { int used = 0; for (int t = 0; t < NM; t++) if (find_src(t, K_FD, k) >= 0) used = 1; if (used) EMIT(O_READY, k); }
    if (P.groups & G_ENVX) {     /* external happenings, offered only when a RUNNING module watches them (an unwatched signal would kill the process) */
        for (int kd = K_SGN; kd <= K_PID; kd++) for (int key = 0; key < 2; key++) { int w = 0, pend = 0;
            for (int t = 0; t < NM; t++) { int i = find_src(t, kd, key); if (i >= 0 && MD[t].st == S_RUNNING) { w = 1; pend += MD[t].src[i].fired; } }
            if (!w || pend >= 1) continue;
            if (kd == K_PID && child_dead[key]) continue;
            EMIT(kd == K_SGN ? O_RAISE : kd == K_PATH ? O_TOUCH : O_ENDCHILD, key); }
    }
    if (P.groups & G_REFS) for (int i = 0; i < nret; i++) EMIT(O_RELEASE, i);
    return n;
}

static void fmt_op(op_t op, char *b, size_t cap) {
    const char *A = op.a < NM ? MLABEL[op.a] : "?", *B = op.b < NM ? MLABEL[op.b] : "?";
    static const char *prn[] = { "LOW", "NORM", "HIGH" }, *evn[] = { "no-eval", "eval=true", "eval=false" };
    switch (op.c) {
    case O_CTX_REG: snprintf(b, cap, "ctx_register(%s%s)", op.b ? "PERSIST" : "0", op.d == 1 ? ",NAME_DUP" : op.d == 2 ? ",NAME_AUTOFREE|USERDATA_AUTOFREE" : ""); break;
    case O_CTX_DEREG: snprintf(b, cap, "ctx_deregister"); break;
    case O_FINALIZE: snprintf(b, cap, "ctx_finalize"); break;
    case O_DISPATCH: snprintf(b, cap, "dispatch"); break;
    case O_QUIT: snprintf(b, cap, "quit(%d)", QCODE[op.a]); break;
    case O_SET_TICK: snprintf(b, cap, "set_tick(%s)", op.a == 1 ? "4ms" : op.a == 2 ? "12ms" : "0"); break;
    case O_CTXCALL: snprintf(b, cap, "ctx_call#%d", op.a); break;
    case O_REG: if (op.b == 8) { snprintf(b, cap, "register(plugin file that does not exist)"); break; } snprintf(b, cap, "register(%s,%s,on_start=%s,%s)", A, evn[op.b >> 1], (op.b & 1) ? "true" : "false", MFLAGN[op.d]); break;
    case O_DEREG: snprintf(b, cap, "deregister(%s)", A); break;
    case O_START: snprintf(b, cap, "start(%s)", A); break;
    case O_PAUSE: snprintf(b, cap, "pause(%s)", A); break;
    case O_RESUME: snprintf(b, cap, "resume(%s)", A); break;
    case O_STOP: snprintf(b, cap, "stop(%s)", A); break;
    case O_SET_EVAL: snprintf(b, cap, "set_eval_true(%s)", A); break;
    case O_REF: snprintf(b, cap, "ref(%s)", A); break;
    case O_UNREF: snprintf(b, cap, "unref(%s)", A); break;
    case O_TELL: snprintf(b, cap, "tell(%s->%s%s)", A, B, op.d ? ",AUTOFREE" : ""); break;
    case O_PUB: snprintf(b, cap, "publish(%s,\"%s\"%s)", A, op.b < NTOPIC ? TOPIC[op.b] : "?", op.d ? ",AUTOFREE" : ""); break;
    case O_BCAST: snprintf(b, cap, "broadcast(%s%s)", A, op.d ? ",AUTOFREE" : ""); break;
    case O_PILL: snprintf(b, cap, "poisonpill(%s->%s)", A, B); break;
    case O_SUB: snprintf(b, cap, "subscribe(%s,\"%s\",%s%s%s%s)", A, op.b < NPAT ? PAT[op.b] : "?", prn[op.d & 3], (op.d & 4) ? ",ONESHOT" : "", (op.d & 16) ? ",DUP" : "", (op.d & 64) ? ",AUTOFREE(same block)" : (op.d & 32) ? ",AUTOFREE" : ""); break;
    case O_UNSUB: snprintf(b, cap, "unsubscribe(%s,\"%s\")", A, op.b < NPAT ? PAT[op.b] : "?"); break;
    case O_BECOME: snprintf(b, cap, "become(%s,h%d)", A, op.b); break;
    case O_UNBECOME: snprintf(b, cap, "unbecome(%s)", A); break;
    case O_BATCH_SIZE: snprintf(b, cap, "set_batch_size(%s,%zu)", A, BSZ[op.b & 3]); break;
    case O_BATCH_TMO: snprintf(b, cap, "set_batch_timeout(%s,%luns)%s", A, (unsigned long)TMO[op.b % 3], op.d == 1 ? " [timerfd_create fails]" : ""); break;
    case O_UNSTASH: snprintf(b, cap, "unstash(%s,%zu)", A, UNST[op.b % 5]); break;
    case O_SRC_REG: if ((op.b & 15) == 14) { snprintf(b, cap, "src_register(%s,fd of a regular file)", A); break; } snprintf(b, cap, "src_register(%s,%s#%d%s%s%s%s)", A, KN[(op.b >> 4) % NKIND], op.b & 15, (op.d & 1) ? ",AUTOCLOSE" : "", (op.d & 2) ? ",ONESHOT" : "", (op.d & 4) ? ",DUP" : "", (op.d & 8) ? ",AUTOFREE" : ""); break;
    case O_SRC_DEREG: snprintf(b, cap, "src_deregister(%s,%s#%d)", A, KN[(op.b >> 4) % NKIND], op.b & 15); break;
    case O_BUCKET: snprintf(b, cap, "set_tokenbucket(%s,rate=%d,burst=%d)%s", A, TBCFG[op.b % NTBCFG].rate, TBCFG[op.b % NTBCFG].burst, op.d == 1 ? " [timerfd_create fails]" : ""); break;
    case O_ARM: snprintf(b, cap, "arm(%s.%s: %s %d)", A, CBN[(op.b >> 5) & 3], AN[(op.b & 31) < A_MAX ? (op.b & 31) : 0], op.d); break;
    case O_READY: snprintf(b, cap, "make_readable(fd%d)", op.a); break;
    case O_HANGUP: snprintf(b, cap, "peer_closes(fd%d)", op.a); break;
    case O_ADVANCE: snprintf(b, cap, "advance(%luns)", (unsigned long)ADV[op.a & 3]); break;
    case O_INJECT: snprintf(b, cap, "inject(%s)", op.a == 0 ? (op.b == 0 ? "next pipe write -> EAGAIN" : op.b == 1 ? "2nd next pipe write -> EAGAIN" : "3rd next pipe write -> EAGAIN") : op.a == 1 ? "next epoll_wait -> EINTR" : op.a == 2 ? "next epoll_wait -> EBADF" : "next EPOLL_CTL_DEL reported as failed"); break;
    case O_RELEASE: snprintf(b, cap, "release_event(%d)", op.a); break;
    case O_RAISE: snprintf(b, cap, "raise(signal#%d)", op.a); break;
    case O_TOUCH: snprintf(b, cap, "create_file_in(path#%d)", op.a); break;
    case O_ENDCHILD: snprintf(b, cap, "child_exits(pid#%d)", op.a); break;
    default: snprintf(b, cap, "op%d(%d,%d,%d)", op.c, op.a, op.b, op.d);
    }
}

/* canonical monitor state (no addresses, no fd numbers; message identities renamed by position) */
static void canon(char *b, size_t cap) {
    size_t p = 0;
#define AP(...) do { if (p < cap) p += snprintf(b + p, cap - p, __VA_ARGS__); } while (0)
    AP("cx%d%d%d%d%d%d%d%d|", CX.exists, CX.persist, CX.looping, CX.quit, CX.quit ? CX.quit_code : 0, CX.finalized, CX.tick, CX.exists ? CX.var : 0);
    for (int s = 0; s < NM; s++) { mod_t *m = &MD[s];
        AP("M%d:%d%d%d%d%d%d:L%x:", s, m->present, m->st, m->extra, m->evalmode, m->startret, m->flagsidx, m->present ? m->life : 0);
        for (int k = 0; k < NCB; k++) AP("%d.%d,", m->armed[k].act, m->armed[k].arg);
        AP("s"); for (int q = 0; q < NPAT; q++) if (m->sub[q].present) AP("%d%d%d%d%d%d,", q, m->sub[q].prio, m->sub[q].oneshot, m->sub[q].upver, m->sub[q].dup, m->sub[q].af);
        AP("m"); for (int k = 0; k < m->nmb; k++) { msg_t *g = &MSG[m->mb[k].msg]; unsigned cur = 0; for (int q = 0; q < NPAT; q++) if ((m->mb[k].pats & (1u << q)) && m->sub[q].present && (unsigned char)m->sub[q].gen == m->mb[k].gens[q]) cur |= 1u << q;      /* sent under the subscription object that is still there */
            AP("%d.%d.%d.%d.%d.%x.%d.%x.%x.%d,", g->sender + 1, g->topic, g->sys, g->autofree, m->mb[k].optional, m->mb[k].pats, g->may_vanish * 2 + g->rc_neg, cur, m->mb[k].oneshots, m->mb[k].maybe_recvd); }
        AP("b%zu.%d.%d.%d.%d", m->batch_size, m->batch_tmo, m->batch_fired, m->ever_batched, m->batch_due != 0); AP("u%d", m->ba_unsure);
        AP("st"); for (int k = 0; k < m->nst; k++) { evrec_t *r = &EV[m->stash[k]]; AP("%d.%d,", r->kind, r->kind == 0 ? MSG[r->msg].sender + 1 : r->key); }
        AP("h"); for (int k = 0; k < m->nhs; k++) AP("%d", m->hs[k]);
        AP("src"); for (int k = 0; k < MAXSRC; k++) if (m->src[k].present) AP("%d.%d.%d.%d,", m->src[k].kind, m->src[k].key, m->src[k].flags, m->src[k].fired);
        AP("tb%d.%d.%d|", m->tb_rate, m->tb_burst, m->tb_prev);
    }
    AP("T"); for (int i = 0; i < 24; i++) if (MT[i].used) AP("%d.%d.%d.%lu,", MT[i].slot, MT[i].src, MT[i].armed, MT[i].armed ? (unsigned long)(MT[i].next - shim_now_ns) : 0ul);
    AP("U"); for (int i = 0; i < NUFD; i++) AP("%d.%d.%d,", UFD[i].open_rd, UFD[i].bytes, UFD[i].hung * 2 + UFD[i].hung_seen);
    AP("cd%d%d ", child_dead[0], child_dead[1]);
    AP("R%d I%d%d%d", nret, shim_inject_write_eagain, shim_inject_epoll_errno, shim_inject_ctl_del);
}

/* ---- probes (run on a replayed copy of the state) ---- */
#define NPROBES 2
static void drain(void) {       /* dispatch until quiescent */
    if (!CX.exists) return;
    if (!CX.looping) return;
    for (int i = 0; i < 40; i++) {
        if (CX.quit || n_running() == 0) { do_api((op_t){O_DISPATCH}); audit("probe: loop stop"); return; }
        int inj = shim_inject_epoll_errno;
        do_api((op_t){O_DISPATCH}); audit("probe: dispatch");
        if (last_dispatch_rc <= 0 && !inj) return;      /* nothing was received: quiescent */
        if (i >= 3) { int hung = 0; for (int t = 0; t < NM; t++) for (int j = 0; j < MAXSRC; j++) if (MD[t].src[j].present && MD[t].src[j].kind == K_FD && UFD[MD[t].src[j].key].hung) hung = 1; if (hung) return; }      /* a hung-up descriptor stays readable for ever */
    }
}
static void check_quiescent_obligations(void) {
    if (!CX.exists || !CX.looping) return;
    /* a readable (or hung-up) descriptor registered by a RUNNING module must have been reported: descriptor events are never held back */
    for (int s = 0; s < NM; s++) { mod_t *m = &MD[s]; if (!m->present || m->st != S_RUNNING || shim_inject_epoll_errno) continue;
        for (int j = 0; j < MAXSRC; j++) if (m->src[j].present && m->src[j].kind == K_FD) { int k = m->src[j].key;
            if (UFD[k].bytes > 0) vfail("EV.lost", "EV.lost|fd", "dispatch no longer delivers anything but descriptor source #%d of RUNNING module %s is readable and was never reported", k, m->name);
            if (UFD[k].hung && !UFD[k].hung_seen) vfail("EV.lost", "EV.lost|fd-hup", "the peer of descriptor source #%d of RUNNING module %s hung up (readable: end of file) and this was never reported", k, m->name); } }
    for (int s = 0; s < NM; s++) { mod_t *m = &MD[s]; if (!m->present || m->st != S_RUNNING) continue;
        int haslow = holds_low(s);
        if (m->batch_size == 0 && m->batch_tmo == 0 && !haslow && !m->ever_batched) {
            if (ON(R_PS)) for (int k = 0; k < m->nmb; k++) if (!m->mb[k].optional && m->mb[k].kind == 0 && MSG[m->mb[k].msg].topic != T_PILL && !owed_excused(s, k))
                vfail("PS.owed", MSG[m->mb[k].msg].sys ? "PS.owed|quiescent-sys" : "PS.owed|quiescent", "dispatch no longer delivers anything but message #%d (topic %s) owed to RUNNING module %s was never handed over",
                      m->mb[k].msg, MSG[m->mb[k].msg].topic < NTOPIC ? TOPIC[MSG[m->mb[k].msg].topic] : "-", m->name);
        } else if (ON(R_BA) && !m->ba_unsure) {
            /* accumulated events: none of them may be a trigger at its position */
            int pos = 0;
            for (int k = 0; k < m->nmb; k++) { if (m->mb[k].kind != 0 || m->mb[k].optional) continue; pos++;
                int prio = m->mb[k].prio;
                if (prio < 0) continue;        /* several candidate subscriptions: any of their priorities may apply */
                if (prio == PR_HIGH || (prio == PR_NORM && (size_t)pos >= eff_batch(s)))
                    vfail("BA.when", prio == PR_HIGH ? "BA.when|high-held" : "BA.when|norm-held", "%s: %d events are accumulated and event %d is %s, yet the handler was not invoked (batch size %zu)", m->name, m->nmb, pos,
                          prio == PR_HIGH ? "high priority" : "normal priority with the batch size reached", m->batch_size);
            }
        }
    }
}
static void teardown(void) {
    /* stop the loop, deregister the context, drop every user reference, audit both ledgers */
    if (CX.exists && CX.looping) {
        if (!CX.quit && n_running() > 0) do_api((op_t){O_QUIT, 0});
        do_api((op_t){O_DISPATCH}); audit("teardown: loop stop");
    }
    if (CX.exists) { do_api((op_t){O_CTX_DEREG}); audit("teardown: ctx deregister"); }
    while (nret) do_api((op_t){O_RELEASE, 0});
    for (int s = 0; s < NM; s++) while (MD[s].extra > 0) do_api((op_t){O_UNREF, s});
    audit("teardown: references dropped");
    for (int i = 0; i < nmsg; i++) if (MSG[i].used && MSG[i].autofree && lg_is_live((void *)MSG[i].payload) && ON(R_FREE))
        vfail("PS.free", "PS.free|leak", "auto-free payload of message #%d was never released", i);
    for (int i = 0; i < nmsg; i++) if (MSG[i].used && MSG[i].autofree && lg_is_live((void *)MSG[i].payload)) lg_free((void *)MSG[i].payload);
    if (lg_live) { char sz[120] = ""; int p2 = 0, k = 0; for (int i = 0; i < LG_CAP && k < 6; i++) if (lg_tab[i].p) { p2 += snprintf(sz + p2, sizeof sz - p2, " %zuB(#%u)", lg_tab[i].sz, lg_tab[i].seq); k++; }
        vfail("LG.mem", "LG.mem|leak", "%d library allocations outstanding after the context was deregistered and every user reference dropped (sizes:%s)", lg_live, sz); }
    if (shim_regex_live) vfail("LG.mem", "LG.mem|regex-leak", "%d compiled regular expression(s) of the library never released (regcomp without regfree)", shim_regex_live);
    if (ON(R_FD) && shim_open_lib_fds()) { int fd = -1; for (int i = 0; i < SHIM_MAXFD; i++) if (shim_fd[i].st == FD_LIB_OPEN && !shim_fd[i].user) { fd = i; break; }
        vfail("LG.fd", "LG.fd|leak", "%d descriptors opened by the library are still open after teardown (e.g. fd %d, kind %d)", shim_open_lib_fds(), fd, shim_fd[fd].kind); }
}
/* TB.bound probe: exhaust the bucket, let a little time pass with the loop dispatched, try again - every success is checked against burst + rate*t */
static void tb_pressure(void) {
    if (!ON(R_TB) || !CX.exists || !CX.looping) return;
    for (int s = 0; s < NM; s++) if (MD[s].present && MD[s].st == S_RUNNING && MD[s].tb_rate > 0 && MD[s].tb_rate <= 1000 && !CX.quit) {
        for (int k = 0; k < MD[s].tb_burst + 1; k++) do_api((op_t){O_TELL, s, s, 0});
        for (int r = 0; r < 4; r++) {
            do_api((op_t){O_ADVANCE, 0}); drain();
            if (!(MD[s].present && MD[s].st == S_RUNNING && MD[s].tb_rate > 0) || CX.quit || !CX.looping) break;
            for (int k = 0; k < 3; k++) do_api((op_t){O_TELL, s, s, 0});
        }
    }
}
/* TB.live: after at least one refill period of running time with the loop dispatched, a throttled module can act again */
static void tb_liveness(void) {
    if (!ON(R_TB) || !CX.exists || !CX.looping) return;
    for (int s = 0; s < NM; s++) if (MD[s].present && MD[s].st == S_RUNNING && MD[s].tb_rate > 0 && MD[s].tb_burst > 0 && !CX.quit) {
        do_api((op_t){O_ADVANCE, 3}); drain();
        if (!(MD[s].present && MD[s].st == S_RUNNING && MD[s].tb_rate > 0) || CX.quit || !CX.looping) continue;
        do_api((op_t){O_TELL, s, s, 0});
        if (last_send_rc == -EAGAIN) vfail("TB.live", "TB.live", "%s (bucket rate %d, burst %d) is still refused with EAGAIN after running for one second with the loop dispatched", MD[s].name, MD[s].tb_rate, MD[s].tb_burst);
    }
}
static void run_probe(int i) {
    if (i == 0) { drain(); check_quiescent_obligations(); tb_pressure(); tb_liveness(); drain();
        /* loop restart cycle when a module is PAUSED: what it had pending is discarded at loop end and must not show up in the next run */
        int paused = 0; for (int s = 0; s < NM; s++) if (MD[s].present && MD[s].st == S_PAUSED) paused = 1;
        if (paused && CX.exists && CX.looping && !(P.groups & G_BUCKET)) {
            if (!CX.quit && n_running() > 0) do_api((op_t){O_QUIT, 0});
            do_api((op_t){O_DISPATCH}); audit("probe: loop stop (restart cycle)");
            if (CX.exists) { do_api((op_t){O_DISPATCH}); audit("probe: loop start (restart cycle)");
                for (int s = 0; s < NM; s++) if (MD[s].present && MD[s].st == S_PAUSED && !ctx_hidden()) { do_api((op_t){O_RESUME, s}); audit("probe: resume (restart cycle)"); }
                drain(); check_quiescent_obligations(); }
        }
        teardown(); }
    else { teardown(); }
}
#endif
