/* C10 — reference-counted blocks.  Real m_mem_* against a counting monitor.
 * Population: 3 slots, <= 3 user references each; destructor kinds: none, log, "drops a reference on slot (i+1)%3".
 * Extra enumeration: EVERY size 0..4096 (all residues mod alignof(max_align_t)) x {no dtor, dtor}. */
#define LG_CAP 1024
#include "../engine/ledger.h"
#include "../engine/seqx.h"
#include <stddef.h>
#include <stdalign.h>
#include <module/mem/mem.h>

typedef struct { void *(*_malloc)(size_t); void *(*_calloc)(size_t, size_t); void (*_free)(void *); } m_memhook_t;
extern m_memhook_t memhook;

enum { O_NEW, O_REF, O_UNREF, O_UNREFP, O_SIZE, O_NULLS, O_NEWSZ, O_MANYREF, O_HUGE };
#define MANY 140000        /* crosses 2^8, 2^16 and 2^17 outstanding references */
#define NS 3
static const size_t SZ[] = { 0, 1, 7, 8, 15, 16, 17, 24, 40, 100, 4096 };
#define NSZ ((int)(sizeof SZ / sizeof *SZ))

typedef struct {
    int live, refs, dkind, holds;      /* holds: slot index this block's dtor unrefs, or -1 */
    size_t size;
    uint8_t *p; void *raw; size_t rawsz;
    int dtor_calls, freed;
} blk_t;
static blk_t B[NS];
static int cur_new = -1;               /* slot being created (to attribute the calloc) */

/* expected events, evaluated as they happen */
static int in_dtor_of = -1;

static int slot_of_ptr(void *p) { for (int i = 0; i < NS; i++) if (B[i].p == p && B[i].p) return i; return -1; }
static int slot_of_raw(void *raw) { for (int i = 0; i < NS; i++) if (B[i].raw == raw && B[i].raw) return i; return -1; }

static void check_pattern(int i, const char *when) {
    for (size_t k = 0; k < B[i].size; k++)
        if (B[i].p[k] != (uint8_t)(0xA0 + i + k))
            sx_fail("MEM.content", "MEM.content", "block %d byte %zu corrupted %s", i, k, when);
}

static void dtor_common(void *p) {
    int i = slot_of_ptr(p);
    sx_obs(1000 + i);
    if (i < 0) sx_fail("MEM.dtor", "MEM.dtor|unknown", "destructor called with unknown pointer");
    if (B[i].refs != 0) sx_fail("MEM.dtor", "MEM.dtor|early", "destructor of block %d ran while monitor count is %d", i, B[i].refs);
    if (B[i].dtor_calls++) sx_fail("MEM.dtor", "MEM.dtor|twice", "destructor of block %d ran twice", i);
    if (B[i].freed || !lg_is_live(B[i].raw)) sx_fail("MEM.order", "MEM.order|free-before-dtor", "block %d released before its destructor ran", i);
    check_pattern(i, "at destructor time");
}
static void dtor_log(void *p) { dtor_common(p); }
static void dtor_chain(void *p) {
    dtor_common(p);
    int i = slot_of_ptr(p), j = B[i].holds;
    if (j >= 0) {
        if (!B[j].live) sx_fail("MEM.alive", "MEM.alive", "block %d already gone while %d still held a reference", j, i);
        B[j].refs--;
        if (B[j].refs == 0) B[j].live = 0;
        m_mem_unref(B[j].p);
        if (B[j].refs == 0 && !B[j].freed) sx_fail("MEM.free", "MEM.free|missing", "block %d not released after last unref (nested)", j);
    }
}

static void on_alloc(void *raw, size_t sz) {
    if (cur_new < 0) sx_fail("MEM.alloc", "MEM.alloc|unexpected", "unexpected allocation of %zu bytes", sz);
    if (B[cur_new].raw) sx_fail("MEM.alloc", "MEM.alloc|two", "m_mem_new made two allocations");
    B[cur_new].raw = raw; B[cur_new].rawsz = sz;
}
static void on_free(void *raw) {
    int i = slot_of_raw(raw);
    sx_obs(2000 + i);
    if (i < 0) sx_fail("MEM.free", "MEM.free|unknown", "allocator asked to free an unknown block");
    if (B[i].refs != 0) sx_fail("MEM.free", "MEM.free|early", "block %d released while monitor count is %d", i, B[i].refs);
    if (B[i].dkind && !B[i].dtor_calls) sx_fail("MEM.order", "MEM.order|free-before-dtor", "block %d released before destructor", i);
    if (B[i].freed++) sx_fail("MEM.free", "MEM.free|twice", "block %d released twice", i);
}

/* sizes beyond 32 bits: the allocator hands out an untouched MAP_NORESERVE mapping, so no memory is consumed */
#include <sys/mman.h>
static int huge_want_dtor; static int huge_dtor_expected(void) { return huge_want_dtor; }
static const size_t HUGE_SZ[] = { 0xffffffffull, 0x100000000ull, 0x100000064ull, 0x200000007ull };
static void *huge_p; static size_t huge_sz; static int huge_allocs, huge_frees, huge_bad, huge_dtor, huge_refused;
static void *huge_calloc(size_t n, size_t sz) { size_t t = n * sz; void *p = mmap(NULL, t, PROT_READ | PROT_WRITE, MAP_PRIVATE | MAP_ANONYMOUS | MAP_NORESERVE, -1, 0);
    if (p == MAP_FAILED) { huge_refused = 1; return NULL; } huge_p = p; huge_sz = t; huge_allocs++; return p; }
static void *huge_malloc(size_t sz) { return huge_calloc(1, sz); }
static void huge_free(void *p) { if (p && p == huge_p) { if (huge_dtor_expected() && !huge_dtor) huge_bad = 2; munmap(huge_p, huge_sz); huge_p = NULL; huge_frees++; } else if (p) huge_bad = 1; }
static void huge_dtor_cb(void *p) { (void)p; huge_dtor++; if (huge_frees) huge_bad = 3; }
static void do_huge(int k, int withdtor) {
    size_t size = HUGE_SZ[k];
    huge_p = NULL; huge_allocs = huge_frees = huge_bad = huge_dtor = huge_refused = 0; huge_want_dtor = withdtor;
    memhook._malloc = huge_malloc; memhook._calloc = huge_calloc; memhook._free = huge_free;
    uint8_t *p = m_mem_new(size, withdtor ? huge_dtor_cb : NULL);
    if (!p) { memhook._malloc = lg_malloc; memhook._calloc = lg_calloc; memhook._free = lg_free;
        if (huge_refused) { sx_obs(77); return; }      /* the system refused the mapping: nothing to check */
        sx_fail("MEM.new", "MEM.new|null-huge", "m_mem_new(%zu) returned NULL although the allocator delivered", size); }
    if ((uintptr_t)p % alignof(max_align_t)) sx_fail("MEM.align", "MEM.align|huge", "m_mem_new(%zu): pointer not aligned", size);
    if (huge_allocs != 1 || p < (uint8_t *)huge_p || p + size > (uint8_t *)huge_p + huge_sz || p + size < p) sx_fail("MEM.bounds", "MEM.bounds|huge", "user area of %zu bytes not inside the %zu bytes allocated", size, huge_sz);
    if (m_mem_size(p) != size) sx_fail("MEM.size", "MEM.size|huge", "m_mem_size=%zu, requested %zu", m_mem_size(p), size);
    if (p[0] || p[size - 1]) sx_fail("MEM.zero", "MEM.zero|huge", "new block not zeroed"); p[0] = 1; p[size - 1] = 2;
    if (m_mem_ref(p) != p) sx_fail("MEM.ref", "MEM.ref|ret", "m_mem_ref returned a different pointer");
    m_mem_unref(p);
    if (huge_frees || huge_dtor) sx_fail("MEM.alive", "MEM.alive|huge", "block of %zu bytes destroyed while a reference is held", size);
    if (m_mem_size(p) != size || p[0] != 1 || p[size - 1] != 2) sx_fail("MEM.content", "MEM.content|huge", "block of %zu bytes changed under a held reference", size);
    m_mem_unref(p);
    memhook._malloc = lg_malloc; memhook._calloc = lg_calloc; memhook._free = lg_free;
    if (huge_bad) sx_fail("MEM.free", "MEM.free|huge-order", "release of the %zu byte block went wrong (code %d)", size, huge_bad);
    if (huge_frees != 1) sx_fail("MEM.free", "MEM.free|missing", "block of %zu bytes released %d times at the last unref", size, huge_frees);
    if (withdtor && huge_dtor != 1) sx_fail("MEM.dtor", "MEM.dtor|missing", "destructor of the %zu byte block ran %d times", size, huge_dtor);
}
static void h_reset(void) {
    memset(B, 0, sizeof B); for (int i = 0; i < NS; i++) B[i].holds = -1;
    cur_new = -1; in_dtor_of = -1;
    memhook._malloc = lg_malloc; memhook._calloc = lg_calloc; memhook._free = lg_free;
    lg_alloc_hook = on_alloc; lg_free_hook = on_free;
}
static void h_cleanup(void) { lg_alloc_hook = NULL; lg_free_hook = NULL; lg_reset(); }

static void do_new(int i, size_t size, int dk) {
    int j = (i + 1) % NS;
    m_ref_dtor d = dk == 0 ? NULL : dk == 1 ? dtor_log : dtor_chain;
    cur_new = i;
    B[i].size = size; B[i].dkind = dk;
    uint8_t *p = m_mem_new(size, d);
    cur_new = -1;
    if (!p) sx_fail("MEM.new", "MEM.new|null", "m_mem_new(%zu) returned NULL", size);
    B[i].p = p; B[i].live = 1; B[i].refs = 1;
    sx_obs((uintptr_t)p % alignof(max_align_t));
    if ((uintptr_t)p % alignof(max_align_t))
        sx_fail("MEM.align", "MEM.align", "m_mem_new(%zu) returned a pointer with residue %zu modulo alignof(max_align_t)=%zu",
                size, (size_t)((uintptr_t)p % alignof(max_align_t)), (size_t)alignof(max_align_t));
    if (!B[i].raw) sx_fail("MEM.alloc", "MEM.alloc|none", "m_mem_new did not use the configured allocator");
    if (p < (uint8_t *)B[i].raw || p + size > (uint8_t *)B[i].raw + B[i].rawsz)
        sx_fail("MEM.bounds", "MEM.bounds", "user area of %zu bytes not inside the allocated block", size);
    for (size_t k = 0; k < size; k++) if (p[k]) sx_fail("MEM.zero", "MEM.zero", "byte %zu of a new block is not zero", k);
    for (size_t k = 0; k < size; k++) p[k] = (uint8_t)(0xA0 + i + k);
    if (m_mem_size(p) != size) sx_fail("MEM.size", "MEM.size", "m_mem_size=%zu, requested %zu", m_mem_size(p), size);
    if (dk == 2) { B[i].holds = j; if (m_mem_ref(B[j].p) != B[j].p) sx_fail("MEM.ref", "MEM.ref|ret", "m_mem_ref returned a different pointer"); B[j].refs++; }
}

static void after_unref(int i) {
    if (B[i].refs == 0) {
        B[i].live = 0;
        if (B[i].dkind && B[i].dtor_calls != 1) sx_fail("MEM.dtor", "MEM.dtor|missing", "destructor of block %d did not run at last unref", i);
        if (!B[i].freed) sx_fail("MEM.free", "MEM.free|missing", "block %d not released at last unref", i);
    } else {
        if (B[i].dtor_calls) sx_fail("MEM.dtor", "MEM.dtor|early", "destructor of block %d ran with %d references left", i, B[i].refs);
        if (B[i].freed) sx_fail("MEM.free", "MEM.free|early", "block %d released with %d references left", i, B[i].refs);
        check_pattern(i, "after unref with references left");
    }
}

static void h_apply(op_t op) {
    int i = op.a;
    switch (op.c) {
    case O_NEW: do_new(i, SZ[op.b], op.d); break;
    case O_NEWSZ: do_new(0, (size_t)op.a * 256 + op.b, op.d); break;
    case O_REF: {
        void *r = m_mem_ref(B[i].p); B[i].refs++;
        if (r != B[i].p) sx_fail("MEM.ref", "MEM.ref|ret", "m_mem_ref returned a different pointer");
        check_pattern(i, "after ref"); break; }
    case O_UNREF: {
        B[i].refs--;
        void *r = m_mem_unref(B[i].p);
        if (r) sx_fail("MEM.unref", "MEM.unref|ret", "m_mem_unref did not return NULL");
        after_unref(i); break; }
    case O_UNREFP: {
        void *p = B[i].p; B[i].refs--;
        m_mem_unrefp(&p);
        if (p) sx_fail("MEM.unref", "MEM.unrefp|ptr", "m_mem_unrefp did not clear the pointer");
        after_unref(i); break; }
    case O_SIZE: {
        size_t s = m_mem_size(B[i].p); sx_obs(s);
        if (s != B[i].size) sx_fail("MEM.size", "MEM.size", "m_mem_size=%zu, requested %zu", s, B[i].size);
        break; }
    case O_MANYREF: {       /* every reference count 1..MANY on the way up and down: alive until the very last unref */
        for (int k = 0; k < MANY; k++) { if (m_mem_ref(B[i].p) != B[i].p) sx_fail("MEM.ref", "MEM.ref|ret", "m_mem_ref returned a different pointer"); B[i].refs++; }
        if (B[i].dtor_calls || B[i].freed) sx_fail("MEM.alive", "MEM.alive|many", "block destroyed while taking references");
        for (int k = 0; k < MANY; k++) {
            B[i].refs--; m_mem_unref(B[i].p);
            if (B[i].dtor_calls || B[i].freed) sx_fail("MEM.alive", "MEM.alive|many", "block destroyed although %d references are still held (after dropping %d of %d additional references)", B[i].refs, k + 1, MANY);
        }
        check_pattern(i, "after many ref/unref"); break; }
    case O_HUGE: do_huge(op.b & 3, op.d); break;
    case O_NULLS: {
        void *n = NULL;
        if (m_mem_ref(NULL) || m_mem_unref(NULL) || m_mem_size(NULL)) sx_fail("MEM.null", "MEM.null", "NULL not tolerated");
        m_mem_unrefp(NULL); m_mem_unrefp(&n);
        break; }
    }
    if (lg_err) sx_fail("LG.mem", "LG.mem|bad-free", "double or foreign free of %p", lg_err_ptr);
    /* global audit after every op: live blocks intact, dead blocks released */
    for (int k = 0; k < NS; k++) {
        if (B[k].live) { if (B[k].freed || B[k].dtor_calls) sx_fail("MEM.alive", "MEM.alive", "block %d destroyed while %d references remain", k, B[k].refs); check_pattern(k, "in audit"); }
        else if (B[k].p && !B[k].freed) sx_fail("MEM.free", "MEM.free|missing", "block %d not released although no reference remains", k);
    }
    int live = 0; for (int k = 0; k < NS; k++) live += B[k].live;
    if (lg_live != live) sx_fail("LG.mem", "LG.mem|count", "%d blocks outstanding in the allocator, monitor expects %d", lg_live, live);
}

static int h_enabled(op_t *o, int max) {
    int n = 0;
    for (int i = 0; i < NS; i++) {
        if (!B[i].p) {      /* each slot is used once per history (fresh identity) */
            for (int s = 0; s < NSZ; s++) {
                /* BFS menu: sizes {0,1,16,17} on slot 0, {8} elsewhere (every size 0..4096 is covered by h_extra) */
                if (i == 0 ? !(s == 0 || s == 1 || s == 5 || s == 6) : s != 3) continue;
                o[n++] = (op_t){O_NEW, i, s, 0}; o[n++] = (op_t){O_NEW, i, s, 1};
                if (B[(i + 1) % NS].live) o[n++] = (op_t){O_NEW, i, s, 2};
            }
        } else if (B[i].live) {
            /* user-held references = refs minus references held by other blocks' destructors */
            int held = 0; for (int k = 0; k < NS; k++) if (B[k].live && B[k].holds == i) held++;
            int user = B[i].refs - held;
            if (user < 3) o[n++] = (op_t){O_REF, i, 0, 0};
            if (user > 0) { o[n++] = (op_t){O_UNREF, i, 0, 0}; o[n++] = (op_t){O_UNREFP, i, 0, 0}; }
            o[n++] = (op_t){O_SIZE, i, 0, 0};
        }
    }
    o[n++] = (op_t){O_NULLS, 0, 0, 0};
    (void)max; return n;
}

static void h_canon(char *b, size_t cap) {
    int p = 0;
    for (int i = 0; i < NS; i++) p += snprintf(b + p, cap - p, "%d:%d:%d:%zu:%d:%d|", B[i].p != NULL, B[i].live, B[i].refs, B[i].size, B[i].dkind, B[i].holds);
}

/* probe 0: drop every user reference in ascending slot order; everything must be released exactly once */
static void h_probe(int which) {
    for (int pass = 0; pass < 4; pass++)
        for (int k = 0; k < NS; k++) {
            int i = which == 0 ? k : NS - 1 - k;
            for (;;) {
                if (!B[i].live) break;
                int held = 0; for (int q = 0; q < NS; q++) if (B[q].live && B[q].holds == i) held++;
                if (B[i].refs - held <= 0) break;
                h_apply((op_t){O_UNREF, i, 0, 0});
            }
        }
    for (int i = 0; i < NS; i++) if (B[i].live) sx_fail("MEM.free", "MEM.free|leak", "block %d still alive after all user references were dropped", i);
    if (lg_live) sx_fail("LG.mem", "LG.mem|leak", "%d blocks outstanding after all references were dropped", lg_live);
}

static void h_fmt(op_t op, char *b, size_t cap) {
    static const char *dk[] = {"nodtor", "dtor", "dtor-unrefs-next"};
    switch (op.c) {
    case O_NEW: snprintf(b, cap, "new(slot%d,size=%zu,%s)", op.a, SZ[op.b], dk[op.d]); break;
    case O_NEWSZ: snprintf(b, cap, "new(slot0,size=%d,%s)", op.a * 256 + op.b, dk[op.d]); break;
    case O_REF: snprintf(b, cap, "ref(slot%d)", op.a); break;
    case O_UNREF: snprintf(b, cap, "unref(slot%d)", op.a); break;
    case O_UNREFP: snprintf(b, cap, "unrefp(slot%d)", op.a); break;
    case O_SIZE: snprintf(b, cap, "size(slot%d)", op.a); break;
    case O_NULLS: snprintf(b, cap, "null-args"); break;
    case O_MANYREF: snprintf(b, cap, "ref x%d then unref x%d (slot%d)", MANY, MANY, op.a); break;
    case O_HUGE: snprintf(b, cap, "new(%zu bytes,%s) size ref unref unref", HUGE_SZ[op.b & 3], op.d ? "dtor" : "no dtor"); break;
    default: snprintf(b, cap, "?"); }
}

/* every size 0..4096 x {no dtor, dtor}: new, size, ref, unref, (probe: unref -> destroyed once) */
static void h_extra(void) {
    for (int sz = 0; sz <= 4096; sz++)
        for (int d = 0; d < 2; d++) {
            hist_t h = {0};
            h.ops[h.n++] = (op_t){O_NEWSZ, sz >> 8, sz & 255, d};
            h.ops[h.n++] = (op_t){O_SIZE, 0, 0, 0};
            h.ops[h.n++] = (op_t){O_REF, 0, 0, 0};
            h.ops[h.n++] = (op_t){O_UNREF, 0, 0, 0};
            if (sx_run_extra(&h) && sx_viol >= sx_max_viol) return;
        }
}
static void h_extra2(void) {
    for (int d = 0; d < 2; d++) { hist_t h = {0};
        h.ops[h.n++] = (op_t){O_NEW, 0, 5, d}; h.ops[h.n++] = (op_t){O_MANYREF, 0, 0, 0}; h.ops[h.n++] = (op_t){O_REF, 0, 0, 0}; h.ops[h.n++] = (op_t){O_UNREF, 0, 0, 0};
        sx_run_extra(&h); }
}
static void h_extra3(void) {      /* sizes around and beyond 2^32 (never touched, so nothing is consumed) */
    for (int k = 0; k < 4; k++) for (int d = 0; d < 2; d++) { hist_t h = {0}; h.ops[h.n++] = (op_t){O_HUGE, 0, k, d}; sx_run_extra(&h); }
}
static void h_extra_all(void) { h_extra(); h_extra2(); h_extra3(); }
static const char *h_cfg(void) { return "3 slots, 11 size classes, all sizes 0..4096, sizes 2^32-1 .. 2^33+7"; }

int main(int argc, char **argv) {
    static const sx_harness H = { "c10_mem", NULL, h_reset, h_enabled, h_apply, h_canon, 2, h_probe, h_cleanup, h_fmt, h_cfg, h_extra_all };
    return sx_main(argc, argv, &H);
}
