/* core world — part 3: monitor transitions driven by observed callbacks, delivery matching */
#ifndef WORLD_CB_H
#define WORLD_CB_H
#include "world_model.h"

/* rule groups a check enables (crash / ledger rules are always on) */
enum { R_ST = 1, R_CB = 2, R_EV = 4, R_CT = 8, R_PS = 16, R_FIFO = 32, R_PILL = 64, R_SY = 128, R_BA = 256, R_SH = 512, R_HD = 1024,
       R_SR = 2048, R_TB = 4096, R_FD = 8192, R_LP = 16384, R_CX = 32768, R_FREE = 65536, R_NM = 131072 };
static unsigned RULES = 0xffffffff;
#define ON(r) (RULES & (r))

static void run_armed(int s, int kind);        /* world_ops.h */

/* ---- deferred emissions: notifications the library sends right after a callback returned ---- */
enum { POST_STARTED, POST_STOPPED, POST_CTX_STARTED, POST_CTX_STOPPED, POST_TICK };
static struct { int kind, subject, optional; } POSTQ[16]; static int npost;
static void post_push(int kind, int subject, int optional) { if (npost < 16) POSTQ[npost++] = (typeof(POSTQ[0])){ kind, subject, optional }; }
static void mon_flush(void) {
    for (int i = 0; i < npost; i++) {
        int topic = POSTQ[i].kind == POST_STARTED ? T_MOD_STARTED : POSTQ[i].kind == POST_STOPPED ? T_MOD_STOPPED : POSTQ[i].kind == POST_CTX_STARTED ? T_CTX_STARTED : POSTQ[i].kind == POST_CTX_STOPPED ? T_CTX_STOPPED : T_CTX_TICK;
        int subj = POSTQ[i].subject;
        int m = new_msg(subj, topic, 1, 0);
        for (int s = 0; s < NM; s++) {
            if (!eligible_state(s)) continue;
            unsigned pats = matching_pats(s, topic); if (!pats) continue;
            mb_append(s, m, POSTQ[i].optional || s == subj, pats);
        }
    }
    npost = 0;
}

/* expected callbacks */
static int exp_start[NM], eval_ok[NM];
static int exp_stop_run[NM], exp_stop_other[NM], opt_stop[NM];   /* expected on_stop calls: module was RUNNING / was PAUSED / callback optional */
static int stop_notif_opt;
static int stop_by_teardown;
static int teardown_busy;                /* m_ctx_deregister in progress: modules are stopped and become ZOMBIE one by one, in any order */
static int dereg_busy[NM];               /* m_mod_deregister of this module in progress */
static void teardown_zombie(int s);               /* set by cb_enter(CB_STOP): is the MOD_STOPPED notification of this stop optional? */
static int in_pass;                      /* an evaluation pass may be running (inside dispatch) */

/* the module stops (stop, pill, refused start, deregistration): everything the statement says is dropped */
static int flush_phase;                        /* inside the dispatch call that stops the loop (final flush) */
static void mon_stop_effects(int s) {
    mod_t *m = &MD[s];
    if (m->st == S_PAUSED) m->life |= 128;        /* how the reset was reached is part of the dedup key too: a reset path may leave residue */
    if (m->nst) m->life |= 256;
    if (m->nhs) m->life |= 512;
    if (in_cb_slot == s) m->life |= 2048; else if (in_cb_slot >= 0) m->life |= 4096;      /* stopped from inside its own / another module's callback */
    if (flush_phase) m->life |= 8192;
    for (int i = 0; i < m->nmb; i++) if (!m->mb[i].optional && m->mb[i].kind == 0) MSG[m->mb[i].msg].owed--;
    m->nmb = 0;
    memset(m->sub, 0, sizeof m->sub);
    for (int i = 0; i < MAXSRC; i++) {
        if (m->src[i].present && m->src[i].kind == K_FD && (m->src[i].flags & 5) == 1) { /* AUTOCLOSE (of the user's own descriptor, not of a DUP): closed by the library now */ UFD[m->src[i].key].open_rd = 0; }
        m->src[i].present = 0;
    }
    m->ever_batched = 0; m->batch_due = 0; m->ba_unsure = 0; m->nst = 0; m->nhs = 0; m->batch_size = 0; m->batch_tmo = 0; m->batch_fired = 0; m->tb_rate = 0; m->tb_burst = 0; m->tb_prev = 0;
    m->st = S_STOPPED; mt_del_all(s);
}

static int upvh_was(int s, int q, const void *p) { for (int i = 0; i < 6; i++) if (UPVH_OLD[s][q][i] == p) return 1; return 0; }
static int owed_excused(int s, int k);
static long cb_total;                          /* callbacks entered so far in this execution (a dispatch that ran one has processed a batch) */
static void cb_enter(int s, int kind) {
    cb_total++;
    mon_flush();
    mod_t *m = &MD[s];
    m->ncb[kind]++; obs(1000 + s * 10 + kind);
    TRACE("%s(%s) [monitor state %s]", CBN[kind], m->name, SN[m->st]);
    if (!m->present && m->st != S_ZOMBIE && kind != CB_STOP) vfail("CB.ghost", "CB.ghost", "%s called for module %s which is not registered", CBN[kind], m->name);
    switch (kind) {
    case CB_EVAL:
        if (m->st != S_IDLE) vfail("ST.edge", "ST.edge|eval-not-idle", "on_eval called for %s in state %s", m->name, SN[m->st]);
        if (!CX.looping || !in_pass) vfail("EV.pass", "EV.pass|eval-outside", "on_eval called for %s while no evaluation pass can be running", m->name);
        break;
    case CB_START:
        if (exp_start[s] > 0) { exp_start[s]--; break; }
        if (m->st == S_IDLE && in_pass && CX.looping && (m->evalmode == 0 || eval_ok[s])) { m->st = S_RUNNING; eval_ok[s] = 0; mt_arm_all(s, 1); break; }    /* started by the evaluation pass */
        if (ON(R_CB)) vfail("CB.pair", "CB.pair|start-unexpected", "on_start called for %s (state %s) without a start, resume-from-stop or successful evaluation", m->name, SN[m->st]);
        break;
    case CB_STOP:
        stop_by_teardown = 0;
        if (exp_stop_run[s] > 0) { exp_stop_run[s]--; stop_notif_opt = 0; break; }
        if (exp_stop_other[s] > 0) { exp_stop_other[s]--; stop_notif_opt = 1; break; }
        if (teardown_busy && m->present) {       /* the context teardown reached this module */
            int was = m->st; mon_stop_effects(s); stop_notif_opt = was != S_RUNNING; stop_by_teardown = 1; break;
        }
        if (opt_stop[s] > 0) { opt_stop[s]--; stop_notif_opt = 1; break; }
        /* poison pill taking effect inside the receive loop */
        if (m->st == S_RUNNING) {
            int pi = -1;
            for (int i = 0; i < m->nmb; i++) if (m->mb[i].kind == 0 && MSG[m->mb[i].msg].topic == T_PILL) { pi = i; break; }
            if (pi >= 0) {
                int held = m->ever_batched || holds_low(s);
                if (ON(R_PILL) && !held) for (int i = 0; i < pi; i++) if (!m->mb[i].optional && m->mb[i].kind == 0 && !owed_excused(s, i))      /* (a copy lost to a full mailbox is excused) */
                    vfail("PS.pill", "PS.pill|early", "poison pill stopped %s before message #%d, sent to it earlier, was handed over", m->name, m->mb[i].msg);
                MSG[m->mb[pi].msg].owed--; mb_remove(s, pi);
                mon_stop_effects(s); stop_notif_opt = 0; break;
            }
        }
        if (ON(R_CB)) vfail("CB.pair", "CB.pair|stop-unexpected", "on_stop called for %s (state %s) although nothing stopped it", m->name, SN[m->st]);
        stop_notif_opt = 1;
        break;
    case CB_EVT:
        if (m->st != S_RUNNING && ON(R_ST | R_CB)) vfail("CB.running", "CB.running", "event handler invoked for %s while its state is %s", m->name, SN[m->st]);
        break;
    }
}

static bool w_eval(m_mod_t *self) {
    int s = slot_of(self); if (s < 0) vfail("CB.ghost", "CB.ghost", "on_eval with unknown handle");
    cb_depth++; int ps = in_cb_slot, pk = in_cb_kind; in_cb_slot = s; in_cb_kind = CB_EVAL;
    cb_enter(s, CB_EVAL);
    run_armed(s, CB_EVAL);
    bool r = MD[s].evalmode != 2;
    eval_ok[s] = r;
    in_cb_slot = ps; in_cb_kind = pk; cb_depth--;
    return r;
}
static bool w_start(m_mod_t *self) {
    int s = slot_of(self); if (s < 0) vfail("CB.ghost", "CB.ghost", "on_start with unknown handle");
    cb_depth++; int ps = in_cb_slot, pk = in_cb_kind; in_cb_slot = s; in_cb_kind = CB_START;
    cb_enter(s, CB_START);
    int gen = MD[s].reg_gen;
    run_armed(s, CB_START);
    bool r = MD[s].startret;
    mon_flush();
    if (MD[s].reg_gen == gen && MD[s].st != S_ZOMBIE && MD[s].present) {
        if (r) post_push(POST_STARTED, s, 0);
        else {   /* refusing start: the module is stopped right away (observed RUNNING only from inside this callback) */
            post_push(POST_STARTED, s, 1);
            if (MD[s].st == S_RUNNING) { mon_stop_effects(s); exp_stop_run[s]++; }
            else if (MD[s].st == S_PAUSED) { mon_stop_effects(s); exp_stop_other[s]++; }
            else opt_stop[s]++;
        }
    }
    in_cb_slot = ps; in_cb_kind = pk; cb_depth--;
    return r;
}
static void w_stop(m_mod_t *self) {
    int s = slot_of(self); if (s < 0) vfail("CB.ghost", "CB.ghost", "on_stop with unknown handle");
    cb_depth++; int ps = in_cb_slot, pk = in_cb_kind; in_cb_slot = s; in_cb_kind = CB_STOP;
    cb_enter(s, CB_STOP);
    int notif_opt = stop_notif_opt, by_teardown = stop_by_teardown;
    run_armed(s, CB_STOP);
    mon_flush();
    if ((dereg_busy[s] || (teardown_busy && by_teardown)) && MD[s].present && (MD[s].st == S_RUNNING || MD[s].st == S_PAUSED)) {
        /* restarted by its own on_stop while it is being deregistered: it is stopped once more (with its stop callback) before it becomes a ZOMBIE */
        if (MD[s].st == S_RUNNING) exp_stop_run[s]++; else exp_stop_other[s]++;
        mon_stop_effects(s);
    }
    /* the library announces the stop right after this callback, unless the module was deregistered inside it */
    if (MD[s].st != S_ZOMBIE && MD[s].present) post_push(POST_STOPPED, s, notif_opt);
    if (teardown_busy && by_teardown && MD[s].present) { mon_flush(); teardown_zombie(s); }
    in_cb_slot = ps; in_cb_kind = pk; cb_depth--;
}

/* ---- deliveries ---- */
static int unstash_slot = -1, unstash_n;       /* set around m_mod_unstash: the nested invocation is a replay */
static const m_evt_t *cur_evts[32]; static int cur_evrec[32]; static int ncur;   /* events of the innermost handler invocation */
static int cur_handler_id;
static int msg_busy[MAXMSG];

static int collect_cb(void *up, void *data) { (void)up; if (ncur < 32) cur_evts[ncur++] = data; return 0; }

static int new_evrec(const m_evt_t *e, int kind, int msg, int key) {
    for (int i = 0; i < nev; i++) if (EV[i].p == e && EV[i].refs > 0) return i;
    if (nev >= MAXEV) vfail("INTERNAL", "INTERNAL", "event record pool exhausted");
    EV[nev] = (evrec_t){ e, kind, msg, key, e->userdata, 0 };
    return nev++;
}

static void deliver_ps(int s, const m_evt_t *e, int idx_in_inv, int *is_trigger_high, int *prio_out) {
    mod_t *m = &MD[s]; const m_evt_ps_t *ps = e->ps_evt;
    if (!ps) vfail("PS.match", "PS.match|null", "%s received a pub/sub event without a message", m->name);
    if (ps->topic && !strcmp(ps->topic, "LIBMODULE_MOD_POISONPILL")) {
        if (ON(R_PILL)) vfail("PS.pill", flush_phase ? "PS.pill|flush-leak" : "PS.pill|leak", "the poison pill itself was handed to %s's handler as an event%s", m->name, flush_phase ? " by the final flush (the module is not stopped and later messages are delivered)" : "");
        for (int i = 0; i < m->nmb; i++) if (m->mb[i].kind == 0 && MSG[m->mb[i].msg].topic == T_PILL) { MSG[m->mb[i].msg].owed--; mb_remove(s, i); break; }
        return;
    }
    int p = -1;
    for (int i = 0; i < m->nmb; i++) {
        if (m->mb[i].kind != 0) continue;
        msg_t *g = &MSG[m->mb[i].msg];
        const m_mod_t *snd = g->sender_ptr;
        int tmatch = (g->topic == T_NONE) ? ps->topic == NULL : (g->topic < NTOPIC && ps->topic && !strcmp(ps->topic, TOPIC[g->topic]));
        if (ps->sender == snd && tmatch && ps->data == g->payload && ps->system == (g->sys != 0)) { p = i; break; }
    }
    if (p < 0) {
        char who[8] = "?"; for (int i = 0; i < NM; i++) if (MD[i].ptr == ps->sender) snprintf(who, sizeof who, "%s", MD[i].name);
        vfail("PS.match", ps->system ? "PS.match|sys-ghost" : "PS.match|ghost", "%s received a %smessage (sender %s, topic %s) that matches no message pending for it (wrong recipient, duplicate, or altered fields)",
              m->name, ps->system ? "system " : "", ps->sender ? who : "NULL", ps->topic ? ps->topic : "NULL");
    }
    if (ON(R_FIFO)) for (int i = 0; i < p; i++) if (!m->mb[i].optional && m->mb[i].kind == 0)
        vfail("PS.fifo", flush_phase ? "PS.fifo|flush" : "PS.fifo", "%s received message #%d although message #%d, sent to it earlier, has not been handed over yet", m->name, m->mb[p].msg, m->mb[i].msg);
    /* entries before p that are optional can no longer arrive (order is preserved): drop them */
    for (int i = p - 1; i >= 0; i--) if (m->mb[i].optional && m->mb[i].kind == 0) { mb_remove(s, i); p--; }
    pend_t pe = m->mb[p]; mb_remove(s, p);
    msg_t *g = &MSG[pe.msg];
    for (int q = 0; q < NPAT; q++) if ((pe.pats & (1u << q)) && !(m->sub[q].present && (unsigned char)m->sub[q].gen == pe.gens[q])) m->life |= 16384;      /* delivered under a subscription object that is gone or was replaced: a path of its own in the library */
    if (pe.after_pill && ON(R_PILL)) vfail("PS.pill", "PS.pill|late", "%s received message #%d which was sent to it after a poison pill", m->name, pe.msg);
    if (ps->sender) {      /* the sender stays a valid object (ZOMBIE if deregistered meanwhile) for as long as its message is undelivered */
        const char *nm = m_mod_name(ps->sender);
        if (!nm || strcmp(nm, MNAME[g->sender])) vfail("ST.zombie", "ST.zombie|sender-name", "sender handle of a delivered message does not answer its name");
        int gone = !(MD[g->sender].present && MD[g->sender].reg_gen == g->sender_gen);
        if (gone && !m_mod_is(ps->sender, M_MOD_ZOMBIE)) vfail("ST.zombie", "ST.zombie|sender-state", "deregistered sender of a delivered message is not reported as ZOMBIE");
    }
    /* user pointer and priority: those of (one of) the subscription(s) that matched */
    int prio = PR_NORM, found = pe.pats == 0;
    if (pe.pats == 0) { if (e->userdata != NULL) vfail("EV.owner", "EV.owner|ps-userdata", "%s: direct message delivered with a non-NULL user pointer", m->name); }
    else {
        for (int q = 0; q < NPAT; q++) if (pe.pats & (1u << q)) for (int v = 0; v < 2; v++) if (e->userdata == &UPV[s][q][v] || (v == 0 && e->userdata && (e->userdata == UPVH[s][q] || upvh_was(s, q, e->userdata)))) {      /* the user pointer of the subscription object the message was sent under: the present one or a replaced one */
            found = 1; prio = pe.prio >= 0 ? pe.prio : (m->sub[q].present ? m->sub[q].prio : PR_NORM);
            if (m->sub[q].present && m->sub[q].oneshot && (unsigned char)m->sub[q].gen == pe.gens[q]) { m->sub[q].present = 0;      /* only the subscription the message was sent under is used up */ TRACE("one-shot subscription %s of %s consumed", PAT[q], m->name); }
        }
        if (!found) vfail("EV.owner", "EV.owner|ps-userdata", "%s: message on topic %s delivered with a user pointer that belongs to none of its matching subscriptions", m->name, ps->topic ? ps->topic : "NULL");
    }
    if (!pe.optional) g->owed--;
    g->delivered++;
    msg_busy[pe.msg]++;
    *prio_out = prio; *is_trigger_high = prio == PR_HIGH;
    cur_evrec[idx_in_inv] = new_evrec(e, 0, pe.msg, 0); EV[cur_evrec[idx_in_inv]].prio = prio;
    obs(5000 + pe.msg);
}

/* an owed message was not handed over: excused only if a full mailbox (injected) may have swallowed that copy, or the send failed as a whole */
static int owed_excused(int s, int k) {    /* a copy that may have been lost to a full mailbox stays excused: the entry becomes optional */
    pend_t *e = &MD[s].mb[k]; msg_t *g = &MSG[e->msg];
    if (g->rc_neg && g->delivered == 0) return 1;       /* the failing send reached nobody */
    if (g->may_vanish > 0) { g->may_vanish--; e->optional = 1; g->owed--; return 1; }
    return 0;
}
static const int ENV_SIGS[3] = { SIGUSR1, SIGUSR2, 34 };
static int find_src(int s, int kind, int key) { for (int i = 0; i < MAXSRC; i++) if (MD[s].src[i].present && MD[s].src[i].kind == kind && MD[s].src[i].key == key) return i; return -1; }

static void handle_events(int s, const m_queue_t *evts, int handler_id) {
    mod_t *m = &MD[s];
    int save_n = ncur; const m_evt_t *save_e[32]; int save_r[32]; memcpy(save_e, cur_evts, sizeof save_e); memcpy(save_r, cur_evrec, sizeof save_r); int save_h = cur_handler_id;
    ncur = 0; cur_handler_id = handler_id;
    m_queue_iterate(evts, collect_cb, NULL);
    int n = ncur;
    if (n == 0) vfail("EV.empty", "EV.empty", "%s's handler invoked with an empty event queue", m->name);
    if (n != m_queue_len(evts)) vfail("INTERNAL", "INTERNAL", "queue length mismatch");
    TRACE("  handler h%d of %s gets %d event(s)%s", handler_id, m->name, n, unstash_slot == s ? " (unstash replay)" : flush_phase ? " (final flush)" : "");
    /* HD.top: the invocation goes to the top of the handler stack */
    int want = m->nhs ? m->hs[m->nhs - 1] : 0;
    if (ON(R_HD) && handler_id != want) vfail("HD.top", "HD.top", "%s: invocation went to handler h%d, monitor expects h%d (top of the become stack)", m->name, handler_id, want);
    if (unstash_slot == s) {
        /* SH: exactly the min(n, stashed) oldest stashed events, in stash order, same objects */
        int k = unstash_n < m->nst ? unstash_n : m->nst;
        if (n != k) vfail("SH.count", "SH.count", "%s: unstash(%d) with %d stashed events replayed %d events, expected %d", m->name, unstash_n, m->nst, n, k);
        for (int i = 0; i < n; i++) {
            evrec_t *r = &EV[m->stash[i]];
            if (cur_evts[i] != r->p) vfail("SH.order", "SH.order", "%s: replayed event %d is not the %d-th oldest stashed event", m->name, i, i);
            if (r->kind == 0) { const m_evt_ps_t *ps = cur_evts[i]->ps_evt; msg_t *g = &MSG[r->msg];
                if (!ps || ps->data != g->payload || cur_evts[i]->userdata != r->ud) vfail("SH.content", "SH.content", "%s: replayed event %d lost its original content", m->name, i); }
            cur_evrec[i] = m->stash[i]; r->refs--;
        }
        for (int i = k; i < m->nst; i++) m->stash[i - k] = m->stash[i];
        m->nst -= k;
        unstash_slot = -2;      /* consumed: a second nested invocation would be wrong */
    } else if (unstash_slot == -2 && ON(R_SH)) {
        vfail("SH.once", "SH.once", "%s: unstash produced more than one handler invocation", m->name);
    } else {
        int trigger_seen_at = -1, last_trigger = 0, nps = 0;
        for (int i = 0; i < n; i++) {
            const m_evt_t *e = cur_evts[i]; int trig = 0;
            cur_evrec[i] = -1;
            switch (e->type) {
            case M_SRC_TYPE_PS: { int high = 0, prio = PR_NORM; deliver_ps(s, e, i, &high, &prio); nps++;
                trig = high || (prio == PR_NORM && (size_t)(i + 1) >= eff_batch(s)); break; }
            case M_SRC_TYPE_FD: {
                int k = -1, si = -1;
                for (int j = 0; j < MAXSRC; j++) if (m->src[j].present && m->src[j].kind == K_FD && e->userdata == SRCUPP(s, j)) { si = j; k = m->src[j].key; }
                if (si < 0) vfail("EV.owner", "EV.owner|fd", "%s received a descriptor event whose user pointer matches none of its descriptor sources", m->name);
                if (!(m->src[si].flags & 4) && e->fd_evt->fd != UFD[k].rd) vfail("EV.owner", "EV.owner|fd-value", "%s: descriptor event reports fd %d, registered %d", m->name, e->fd_evt->fd, UFD[k].rd);
                if (UFD[k].bytes <= 0 && !UFD[k].hung) vfail("EV.ghost", "EV.ghost|fd", "%s received a descriptor event although nothing is readable", m->name);
                char c; ssize_t rr = __real_read(e->fd_evt->fd, &c, 1);
                if (UFD[k].bytes > 0 ? rr != 1 : rr != 0) vfail("EV.ghost", "EV.ghost|fd-read", "%s: descriptor reported readable but read returned %zd", m->name, rr);
                if (UFD[k].bytes > 0) UFD[k].bytes--; if (UFD[k].hung) UFD[k].hung_seen = 1; trig = 1; cur_evrec[i] = new_evrec(e, 1, -1, k); obs(6000 + k);
                if (m->src[si].flags & 2) { m->src[si].present = 0; if ((m->src[si].flags & 5) == 1) UFD[k].open_rd = 0; }      /* one-shot */
                break; }
            case M_SRC_TYPE_TMR: {
                int si = -1;
                for (int j = 0; j < MAXSRC; j++) if (m->src[j].present && m->src[j].kind == K_TMR && e->userdata == SRCUPP(s, j)) si = j;
                if (si < 0) vfail("EV.owner", "EV.owner|tmr", "%s received a timer event whose user pointer matches none of its timer sources (internal timer leaked to the user?)", m->name);
                if (e->tmr_evt->ns != TPER[m->src[si].key]) vfail("EV.owner", "EV.owner|tmr-value", "%s: timer event reports %lu ns, registered %lu", m->name, (unsigned long)e->tmr_evt->ns, (unsigned long)TPER[m->src[si].key]);
                if (!m->src[si].fired) vfail("EV.ghost", "EV.ghost|tmr", "%s received a timer event although the timer did not expire", m->name);
                if (m->ever_batched && m->src[si].fired > 1) m->src[si].fired--; else m->src[si].fired = 0;
                trig = (size_t)(i + 1) >= eff_batch(s); cur_evrec[i] = new_evrec(e, 2, -1, m->src[si].key); obs(7000 + si);
                if (m->src[si].flags & 2) m->src[si].present = 0;
                break; }
            case M_SRC_TYPE_SGN: case M_SRC_TYPE_PATH: case M_SRC_TYPE_PID: {
                int kind = e->type == M_SRC_TYPE_SGN ? K_SGN : e->type == M_SRC_TYPE_PATH ? K_PATH : K_PID, si = -1;
                for (int j = 0; j < MAXSRC; j++) if (m->src[j].present && m->src[j].kind == kind && e->userdata == SRCUPP(s, j)) si = j;
                if (si < 0) vfail("EV.owner", "EV.owner|env", "%s received a %s event whose user pointer matches none of its sources of that kind", m->name, KN[kind]);
                int key = m->src[si].key;
                if (kind == K_SGN && (int)e->sgn_evt->signo != ENV_SIGS[key]) vfail("EV.owner", "EV.owner|sgn-value", "%s: signal event reports %u, registered %d", m->name, e->sgn_evt->signo, ENV_SIGS[key]);
                if (kind == K_PATH && (!e->path_evt->path || strcmp(e->path_evt->path, PATHS[key]))) vfail("EV.owner", "EV.owner|path-value", "%s: path event reports another path", m->name);
                if (kind == K_PID && e->pid_evt->pid != CHILD[key]) vfail("EV.owner", "EV.owner|pid-value", "%s: pid event reports %d, registered %d", m->name, e->pid_evt->pid, CHILD[key]);
                if (m->src[si].fired <= 0) vfail("EV.ghost", "EV.ghost|env", "%s received a %s event although nothing happened", m->name, KN[kind]);
                m->src[si].fired--; trig = (size_t)(i + 1) >= eff_batch(s); cur_evrec[i] = new_evrec(e, 3 + kind, -1, key); obs(8000 + kind * 10 + key);
                if (m->src[si].flags & 2) m->src[si].present = 0;
                break; }
            case M_SRC_TYPE_THRESH: {      /* activity thresholds: when they trip is not modelled (wall-clock statistics); the event must belong to a registered threshold of this module, which it uses up */
                int si = -1;
                for (int j = 0; j < MAXSRC; j++) if (m->src[j].present && m->src[j].kind == K_THRESH && e->userdata == SRCUPP(s, j)) si = j;
                if (si < 0) vfail("EV.owner", "EV.owner|thresh", "%s received a threshold event whose user pointer matches none of its threshold sources", m->name);
                m->src[si].present = 0; trig = (size_t)(i + 1) >= eff_batch(s); cur_evrec[i] = new_evrec(e, 3 + K_THRESH, -1, m->src[si].key); m->life |= 131072;
                break; }
            default: vfail("EV.type", "EV.type", "%s received an event of unexpected type %d", m->name, e->type);
            }
            if (trig && i < n - 1 && trigger_seen_at < 0) trigger_seen_at = i;
            if (i == n - 1) last_trigger = trig;
        }
        if (ON(R_BA) && !flush_phase) {
            if (trigger_seen_at >= 0 && !m->ba_unsure) vfail("BA.when", "BA.when|late", "%s: invocation carries %d events but event %d already required an invocation (high priority, or normal priority with the batch size %zu reached)", m->name, n, trigger_seen_at, eff_batch(s));
            if (!last_trigger && !m->batch_fired) vfail("BA.when", "BA.when|early", "%s: handler invoked with %d events although the last one neither is high priority nor reaches the batch size %zu, and no batch timeout expired", m->name, n, eff_batch(s));
        }
        m->batch_fired = 0;
        if (m->nmb == 0) m->ba_unsure = 0;
    }
    run_armed(s, CB_EVT);
    /* handler returns: the library may now release what nobody retained */
    for (int i = 0; i < n && i < 32; i++) if (cur_evrec[i] >= 0 && EV[cur_evrec[i]].kind == 0 && msg_busy[EV[cur_evrec[i]].msg] > 0) msg_busy[EV[cur_evrec[i]].msg]--;
    ncur = save_n; memcpy(cur_evts, save_e, sizeof save_e); memcpy(cur_evrec, save_r, sizeof save_r); cur_handler_id = save_h;
}

#define DEF_HANDLER(N) static void w_evt##N(m_mod_t *self, const m_queue_t *const evts) { \
    int s = slot_of(self); if (s < 0) vfail("CB.ghost", "CB.ghost", "on_evt with unknown handle"); \
    cb_depth++; int ps_ = in_cb_slot, pk_ = in_cb_kind; in_cb_slot = s; in_cb_kind = CB_EVT; \
    cb_enter(s, CB_EVT); handle_events(s, evts, N); \
    in_cb_slot = ps_; in_cb_kind = pk_; cb_depth--; }
DEF_HANDLER(0) DEF_HANDLER(1) DEF_HANDLER(2) DEF_HANDLER(3)
static m_evt_cb HANDLER[4] = { w_evt0, w_evt1, w_evt2, w_evt3 };
#endif
