/* core world — part 2: the world (real handles + scripted behaviour) and the reference monitor state */
#ifndef WORLD_MODEL_H
#define WORLD_MODEL_H
#include "world_base.h"
#include <module/mod.h>
#include <module/ctx.h>
#include <module/mem/mem.h>

enum { S_NONE, S_IDLE, S_RUNNING, S_PAUSED, S_STOPPED, S_ZOMBIE };
static const char *SN[] = { "none", "IDLE", "RUNNING", "PAUSED", "STOPPED", "ZOMBIE" };
enum { CB_EVAL, CB_START, CB_STOP, CB_EVT, NCB };
static const char *CBN[] = { "on_eval", "on_start", "on_stop", "on_evt" };
#define NM 3
static const char *MLABEL[NM] = { "A", "B", "C" };           /* how modules are called in histories */
static char MNAME_BUF[NM][12] = { "A", "B", "C" };
static const char *MNAME[NM] = { MNAME_BUF[0], MNAME_BUF[1], MNAME_BUF[2] };   /* registered names: chosen at start-up so that all three share one home slot of the context's module table */
/* copy of the map's string hash (djb2 + murmur3 finaliser): only used to PICK colliding names; if the library's hash changes the
 * names merely stop colliding - nothing else depends on it */
static size_t name_hash(const char *key) { size_t h = (uint32_t)5381; char c; while ((c = *key++)) h = ((h << 5) + h) + c; h ^= h >> 16; h *= 0x85ebca6b; h ^= h >> 13; h *= 0xc2b2ae35; h ^= h >> 16; return h; }
static void pick_names(void) {
    static char cand[4096][12]; int first[256]; memset(first, -1, sizeof first);
    int cnt[256] = {0}, idx[256][3];
    for (int i = 0; i < 4096; i++) { snprintf(cand[i], sizeof cand[i], "m%03x", i); int s = name_hash(cand[i]) & 255; if (cnt[s] < 3) idx[s][cnt[s]] = i; if (++cnt[s] == 3) { for (int k = 0; k < 3; k++) snprintf(MNAME_BUF[k], sizeof MNAME_BUF[k], "%s", cand[idx[s][k]]); return; } }
}

/* topics that can be published / are emitted */
enum { T_T, T_U, T_TX, T_CTX_STARTED, T_CTX_STOPPED, T_CTX_TICK, T_MOD_STARTED, T_MOD_STOPPED, NTOPIC, T_NONE = 250, T_PILL = 251 };
static const char *TOPIC[NTOPIC] = { "t", "u", "tx", M_PS_CTX_STARTED, M_PS_CTX_STOPPED, M_PS_CTX_TICK, M_PS_MOD_STARTED, M_PS_MOD_STOPPED };
/* subscription patterns */
enum { P_T, P_U, P_RT, P_DOT, P_CTX_STARTED, P_CTX_STOPPED, P_CTX_TICK, P_MOD_STARTED, P_MOD_STOPPED, NPAT };
static const char *PAT[NPAT] = { "t", "u", "^t.*", ".", M_PS_CTX_STARTED, M_PS_CTX_STOPPED, M_PS_CTX_TICK, M_PS_MOD_STARTED, M_PS_MOD_STOPPED };
static int pat_match[NPAT][NTOPIC];       /* computed with the same regcomp flags the library uses */

enum { PR_LOW, PR_NORM, PR_HIGH };
typedef struct { int present, prio, oneshot, upver, dup, af, gen; } sub_t;      /* gen: which subscription object (a replacement or a new subscription after an unsubscribe is a new one) */
static char UPV[NM][NPAT][2];             /* user pointers given at subscription (identity only) */
static char SRCUP[NM][16];
static void *SRCUPH[NM][16];              /* heap user data of sources registered with M_SRC_AUTOFREE (NULL otherwise); owned by the library once the registration succeeded */
static void *UPVH[NM][NPAT];               /* same for subscriptions */
static void *UPVH_OLD[NM][NPAT][6]; static int UPVH_OLDN[NM][NPAT];           /* the block of the subscription object that was replaced last (a message sent under it still carries it) */
#define SRCUPP(s, j) (SRCUPH[s][j] ? (const void *)SRCUPH[s][j] : (const void *)&SRCUP[s][j])
static char PATHS[2][64]; static int CHILD[2];   /* path and pid keys (created once per worker) */                /* user pointers of non-ps sources */

/* messages */
#define MAXMSG 64
typedef struct { int sender, topic, sys, autofree; const void *payload; int owed, freed, used; const m_mod_t *sender_ptr; int sender_gen; int may_vanish, rc_neg, delivered; } msg_t;   /* may_vanish: copies that may disappear because a pipe write was refused (full mailbox) */
static msg_t MSG[MAXMSG]; static int nmsg;
static char PAY[MAXMSG];                  /* plain payload cells (identity) */

/* pending deliveries of a module (mailbox + accumulated batch), in send order */
#define MAXMB 24
typedef struct { int msg; int optional; unsigned pats; int kind; int key; int prio; int after_pill; unsigned char gens[NPAT]; unsigned oneshots; int maybe_recvd; } pend_t;      /* maybe_recvd: a dispatch ran while it was pending for a RUNNING module: the library may already hold it in its batch queue */      /* oneshots: patterns whose subscription was one-shot when the message was sent */   /* prio: priority of the matching subscription when sent (-1: several candidates) */   /* kind: 0 ps message, 1 fd readiness, 2 timer expiry */

/* user-held / stashed event records */
typedef struct { const m_evt_t *p; int kind, msg, key; const void *ud; int refs; int prio; } evrec_t;
#define MAXEV 256

/* non-ps sources of a module */
enum { K_FD, K_TMR, K_SGN, K_PATH, K_PID, K_TASK, K_THRESH, NKIND };
static const char *KN[NKIND] = { "fd", "timer", "signal", "path", "pid", "task", "threshold" };
static const int NKEYS[NKIND] = { 3, 5, 3, 2, 2, 2, 5 };
#define MAXSRC 8
typedef struct { int present, kind, key, flags, fired; } srcrec_t;

typedef struct {
    const char *name;
    m_mod_t *h;                /* primary user reference (from m_mod_register), NULL once consumed by deregister */
    m_mod_t *ptr;              /* raw handle value: identity; dereferenced only while present or extra > 0 */
    int extra;                 /* additional user references (m_mem_ref) */
    int evalmode, startret, flagsidx;      /* scripted callbacks / registration flags */
    struct { uint8_t act, arg; } armed[NCB];
    /* monitor */
    int present, st;
    int ncb[NCB];
    sub_t sub[NPAT];
    pend_t mb[MAXMB]; int nmb;
    size_t batch_size; int batch_tmo;      /* batch_tmo: index into TMO[], 0 = none */
    int batch_fired;                        /* batch timer expired and not yet consumed */
    int batch_due;                          /* batch timeout expired with events accumulated: everything sent before message #batch_due must be handed over by the end of the next dispatch */
    int ba_unsure;                          /* batch settings changed while events were pending: which of them arrived under which settings is unknown */
    int ever_batched;                       /* a batch size/timeout was configured at some point since the module last (re)started */
    int stash[MAXEV]; int nst;              /* indices into EV[] */
    int hs[8]; int nhs;                     /* handler stack (ids 1..3) */
    srcrec_t src[MAXSRC];
    int tb_rate, tb_burst, tb_prev;         /* tb_prev: configuration replaced by the current one (reconfiguration may leave residue): part of the dedup key */
    unsigned life;                          /* sticky per-registration history flags (features ever used): keeps histories that went through a reset (stop) apart in the dedup key, since a reset may leave hidden residue */
    int elig_dirty;                         /* eligibility changed inside the current outermost API call (grace) */
    int reg_gen;
} mod_t;
static mod_t MD[NM];
static evrec_t EV[MAXEV]; static int nev;
static int retained[MAXEV], nret;           /* indices into EV[] the "user" holds a reference on */

/* context */
static struct { int exists, persist, looping, quit, quit_code, finalized, tick; int ever; int pass_changed; int var; } CX;      /* var: ownership flags given at registration (0 none, 1 NAME_DUP, 2 auto-free name and user data) */
static int api_depth;                       /* nesting depth of API calls issued by the harness (0 = outside) */
static int cb_depth;
static int in_cb_slot = -1, in_cb_kind = -1;

/* user descriptors */
#define NUFD 3
static struct { int rd, wr, open_rd, bytes, hung, hung_seen; } UFD[NUFD];      /* hung: the write end was closed (readable for ever: end of file); hung_seen: reported since */
static int BADFD = -1;                      /* a descriptor epoll refuses (regular file): key 14 of the descriptor kind */

static const uint64_t TMO[] = { 0, 5000000ull, 20000000ull };     /* batch timeouts: none, 5 ms, 20 ms */
static const uint64_t TPER[] = { 1ull, 1000000ull, 2000000000ull, 4294967296ull, 8589934593ull, 3000000ull };  /* timer periods (ns) */
static const uint64_t ADV[] = { 2500000ull, 5000000ull, 15000000ull, 1000000000ull };   /* clock advances */
static const int QCODE[] = { 0, 7, 255 };

static void model_reset(void) {
    memset(MD, 0, sizeof MD); memset(MSG, 0, sizeof MSG); nmsg = 0; memset(EV, 0, sizeof EV); nev = 0; nret = 0;
    memset(&CX, 0, sizeof CX); api_depth = cb_depth = 0; in_cb_slot = in_cb_kind = -1;
    for (int i = 0; i < NM; i++) MD[i].name = MNAME[i];
    for (int i = 0; i < NUFD; i++) UFD[i].rd = UFD[i].wr = -1;
    static int inited;
    if (!inited) {
        inited = 1;
        for (int p = 0; p < NPAT; p++) {
            regex_t re; int ok = regcomp(&re, PAT[p], REG_NOSUB) == 0;
            for (int t = 0; t < NTOPIC; t++) pat_match[p][t] = !strcmp(PAT[p], TOPIC[t]) || (ok && regexec(&re, TOPIC[t], 0, NULL, 0) == 0);
            if (ok) regfree(&re);
        }
    }
}

/* effective batch size: with only a timeout configured, normal-priority events never trigger by count */
static size_t eff_batch(int s) { return MD[s].batch_size ? MD[s].batch_size : (MD[s].batch_tmo ? (size_t)-1 : 0); }
static int last_dispatch_rc;
static int slot_of(const m_mod_t *p) { for (int i = 0; i < NM; i++) if (MD[i].ptr == p && p && (MD[i].present || MD[i].extra > 0 || MD[i].st == S_ZOMBIE)) return i; return -1; }
static int eligible_state(int s) { return MD[s].present && (MD[s].st == S_RUNNING || MD[s].st == S_PAUSED); }
static int n_running(void) { int n = 0; for (int i = 0; i < NM; i++) if (MD[i].present && MD[i].st == S_RUNNING) n++; return n; }
static int n_present(void) { int n = 0; for (int i = 0; i < NM; i++) if (MD[i].present) n++; return n; }

/* ---- messages ---- */
static int new_msg(int sender, int topic, int sys, int autofree) {
    if (nmsg >= MAXMSG) vfail("INTERNAL", "INTERNAL", "message pool exhausted");
    msg_t *m = &MSG[nmsg]; memset(m, 0, sizeof *m);
    m->sender = sender; m->topic = topic; m->sys = sys; m->autofree = autofree; m->used = 1;
    m->sender_ptr = sender >= 0 ? MD[sender].ptr : NULL; m->sender_gen = sender >= 0 ? MD[sender].reg_gen : 0;
    if (sys) m->payload = NULL;
    else if (autofree) { m->payload = lg_malloc(8); }
    else m->payload = &PAY[nmsg];
    return nmsg++;
}
/* low-priority events are held back until the next invocation: either a LOW subscription is there, or an event that arrived under one is still pending */
static int holds_low(int s) {
    mod_t *m = &MD[s];
    for (int q = 0; q < NPAT; q++) if (m->sub[q].present && m->sub[q].prio == PR_LOW) return 1;
    for (int k = 0; k < m->nmb; k++) if (m->mb[k].kind == 0 && (m->mb[k].prio == PR_LOW || m->mb[k].prio < 0)) return 1;
    return 0;
}
static void mb_append(int s, int msg, int optional, unsigned pats) {
    mod_t *m = &MD[s];
    if (m->nmb >= MAXMB) vfail("INTERNAL", "INTERNAL", "monitor mailbox overflow");
    int prio = PR_NORM, np = 0;
    for (int q = 0; q < NPAT; q++) if (pats & (1u << q)) { prio = m->sub[q].prio; np++; }
    int after_pill = 0;      /* sent behind a pending poison pill: it will be discarded when the pill takes effect, and must never be delivered */
    for (int i = 0; i < m->nmb; i++) if (m->mb[i].kind == 0 && !m->mb[i].optional && MSG[m->mb[i].msg].topic == T_PILL) after_pill = 1;
    if (after_pill) optional = 1;
    m->mb[m->nmb++] = (pend_t){ msg, optional, pats, 0, 0, np > 1 ? -1 : prio, after_pill };
    for (int q = 0; q < NPAT; q++) { m->mb[m->nmb - 1].gens[q] = (unsigned char)m->sub[q].gen; if ((pats & (1u << q)) && m->sub[q].present && m->sub[q].oneshot) m->mb[m->nmb - 1].oneshots |= 1u << q; }      /* the subscription objects the message was sent under */
    if (!optional) MSG[msg].owed++;
}
static void mb_remove(int s, int idx) {
    mod_t *m = &MD[s];
    for (int i = idx; i < m->nmb - 1; i++) m->mb[i] = m->mb[i + 1];
    m->nmb--;
}
static unsigned matching_pats(int s, int topic) {
    unsigned r = 0; if (topic >= NTOPIC) return 0;
    for (int p = 0; p < NPAT; p++) if (MD[s].sub[p].present && pat_match[p][topic]) r |= 1u << p;
    return r;
}
/* the monitor's account of a send: exactly the eligible recipients get one pending entry */
static int mon_send(int msg, int to /* slot or -1 */, int subject /* module whose own transition this notifies, or -1 */) {
    msg_t *m = &MSG[msg]; int n = 0;
    for (int s = 0; s < NM; s++) {
        if (to >= 0 && s != to) continue;
        if (!eligible_state(s)) continue;
        unsigned pats = 0;
        if (m->topic != T_NONE && m->topic != T_PILL) { pats = matching_pats(s, m->topic); if (!pats) continue; }
        mb_append(s, msg, s == subject /* self-notification: neither required nor forbidden */, pats); n++;
    }
    return n;
}
/* ---- monitor timers ---- */
typedef struct { int used, slot, src /* index in MD[slot].src, -1 batch, -2 bucket, -3 ctx tick */, armed; uint64_t period, next; int oneshot; } mtimer_t;
static mtimer_t MT[24];
static mtimer_t *mt_find(int slot, int src) { for (int i = 0; i < 24; i++) if (MT[i].used && MT[i].slot == slot && MT[i].src == src) return &MT[i]; return NULL; }
static void mt_set(int slot, int src, uint64_t period, int oneshot, int arm) {
    mtimer_t *t = mt_find(slot, src);
    if (!t) for (int i = 0; i < 24; i++) if (!MT[i].used) { t = &MT[i]; break; }
    if (!t) vfail("INTERNAL", "INTERNAL", "monitor timers exhausted");
    *t = (mtimer_t){ 1, slot, src, arm, period, shim_now_ns + period, oneshot };
}
static void mt_del(int slot, int src) { mtimer_t *t = mt_find(slot, src); if (t) t->used = 0; }
static void mt_arm_all(int slot, int arm) { for (int i = 0; i < 24; i++) if (MT[i].used && MT[i].slot == slot) { MT[i].armed = arm; MT[i].next = shim_now_ns + MT[i].period; } }
static void mt_del_all(int slot) { for (int i = 0; i < 24; i++) if (MT[i].used && MT[i].slot == slot) MT[i].used = 0; }
static int tick_owed;
static void mt_advance(void) {
    for (int i = 0; i < 24; i++) { mtimer_t *t = &MT[i];
        if (!t->used || !t->armed || t->next > shim_now_ns) continue;
        if (t->oneshot) t->armed = 0; else t->next += (1 + (shim_now_ns - t->next) / t->period) * t->period;
        if (t->src >= 0) { if (MD[t->slot].ever_batched) MD[t->slot].src[t->src].fired++; else MD[t->slot].src[t->src].fired = 1; }      /* while batching holds events back, one event per expiry seen by a dispatch may accumulate */
        else if (t->src == -1) { MD[t->slot].batch_fired = 1; if (MD[t->slot].st == S_RUNNING && MD[t->slot].nmb) MD[t->slot].batch_due = nmsg; }
        else if (t->src == -3) tick_owed = 1;
    }
}


#endif
