/* core world — part 1: infrastructure (ops, violation reporting, fork-per-execution worker).
 * Protocol (worker mode, stdin -> stdout):
 *   E <hist-hex|-> <ops-hex>   run hist·op for every op;           one "R ..." or "V ..." line per op
 *   P <hist-hex|->             run every probe suffix after hist;   "V ..." lines for failures, then "D"
 *   Q                          quit
 * R line:  R <hist-hex> <key-hex32> <obs-hex16> <ndev> <enabled-ops-hex|->
 * V line:  V <json>
 */
#ifndef WORLD_BASE_H
#define WORLD_BASE_H
#define _GNU_SOURCE
#include <stdio.h>
#include <stdlib.h>
#include <string.h>
#include <stdint.h>
#include <stdarg.h>
#include <errno.h>
#include <unistd.h>
#include <signal.h>
#include <regex.h>
#include <fcntl.h>
#include <sys/wait.h>
#include <sys/mman.h>
#include "../engine/ledger.h"
#include "../engine/shim.h"

typedef struct { uint8_t c, a, b, d; } op_t;
#define MAXH 48
typedef struct { int n; op_t ops[MAXH]; } hist_t;

void __sanitizer_print_stack_trace(void);
static int res_fd = 1;              /* child: where the result line goes */
static hist_t cur_hist;             /* history being executed (for reports) */
static int cur_probe = -1;
static int verbose;
static const char *PROP = "C01";
static char cfg_str[200];
static uint64_t obs_hash = 0x1234;
static void obs(uint64_t v) { obs_hash = (obs_hash ^ v) * 0x100000001B3ull; obs_hash ^= obs_hash >> 29; }

static void fmt_op(op_t op, char *b, size_t cap);      /* world_enum.h */

static void hist_hex(const hist_t *h, char *out) {
    if (!h->n) { strcpy(out, "-"); return; }
    for (int i = 0; i < h->n; i++) sprintf(out + 8 * i, "%02x%02x%02x%02x", h->ops[i].c, h->ops[i].a, h->ops[i].b, h->ops[i].d);
}
static int parse_hex(const char *hex, hist_t *h) {
    h->n = 0; if (!strcmp(hex, "-")) return 0;
    size_t L = strlen(hex); if (L % 8 || L / 8 > MAXH) return -1;
    for (size_t i = 0; i < L / 8; i++) { unsigned c, a, b, d; if (sscanf(hex + 8 * i, "%2x%2x%2x%2x", &c, &a, &b, &d) != 4) return -1; h->ops[h->n++] = (op_t){c, a, b, d}; }
    return 0;
}
static void jstr(char *out, size_t cap, const char *s) {
    size_t p = 0; out[p++] = '"';
    for (; *s && p + 8 < cap; s++) { unsigned char c = *s; if (c == '"' || c == '\\') { out[p++] = '\\'; out[p++] = c; } else if (c < 0x20) out[p++] = ' '; else out[p++] = c; }
    out[p++] = '"'; out[p] = 0;
}
static void write_all(int fd, const char *s) { size_t n = strlen(s); while (n) { ssize_t w = __real_write(fd, s, n); if (w <= 0) break; s += w; n -= w; } }

static void emit_viol(const char *rule, const char *sig, const char *detail) {
    static char line[8192], hx[8 * MAXH + 2], js[1400]; size_t p = 0;
    hist_hex(&cur_hist, hx);
    p += snprintf(line + p, sizeof line - p, "V {\"harness\":\"world\",\"config\":"); jstr(js, sizeof js, cfg_str); p += snprintf(line + p, sizeof line - p, "%s", js);
    jstr(js, sizeof js, rule); p += snprintf(line + p, sizeof line - p, ",\"rule\":%s", js);
    jstr(js, sizeof js, sig); p += snprintf(line + p, sizeof line - p, ",\"sig\":%s", js);
    jstr(js, sizeof js, detail); p += snprintf(line + p, sizeof line - p, ",\"detail\":%s", js);
    p += snprintf(line + p, sizeof line - p, ",\"probe\":%d,\"hex\":\"%s\",\"history\":[", cur_probe, hx);
    for (int i = 0; i < cur_hist.n && p + 200 < sizeof line; i++) { char ob[160]; fmt_op(cur_hist.ops[i], ob, sizeof ob); jstr(js, sizeof js, ob); p += snprintf(line + p, sizeof line - p, "%s%s", i ? "," : "", js); }
    p += snprintf(line + p, sizeof line - p, "]}\n");
    write_all(res_fd, line);
}

/* a violation ends the execution (child process) */
__attribute__((format(printf, 3, 4), noreturn))
static void vfail(const char *rule, const char *sig, const char *fmt, ...) {
    char d[900]; va_list ap; va_start(ap, fmt); vsnprintf(d, sizeof d, fmt, ap); va_end(ap);
    if (verbose) { fprintf(stderr, "VIOLATION %s [%s]: %s\n", rule, sig, d); __sanitizer_print_stack_trace(); }
    emit_viol(rule, sig, d);
    _exit(0);
}
#define TRACE(...) do { if (verbose) { fprintf(stderr, "    " __VA_ARGS__); fputc('\n', stderr); } } while (0)
#endif
