/* core world — part 4: applying one operation to the real library and to the monitor */
#ifndef WORLD_OPS_H
#define WORLD_OPS_H
#include "world_cb.h"

enum { O_CTX_REG = 1, O_CTX_DEREG, O_FINALIZE, O_DISPATCH, O_QUIT, O_SET_TICK,
       O_REG, O_DEREG, O_START, O_PAUSE, O_RESUME, O_STOP, O_SET_EVAL, O_REF, O_UNREF,
       O_TELL, O_PUB, O_BCAST, O_PILL, O_SUB, O_UNSUB,
       O_SRC_REG, O_SRC_DEREG,
       O_BECOME, O_UNBECOME, O_BATCH_SIZE, O_BATCH_TMO, O_BUCKET, O_UNSTASH,
       O_ARM, O_READY, O_ADVANCE, O_INJECT, O_RELEASE, O_CTXCALL, O_RAISE, O_TOUCH, O_ENDCHILD, O_HANGUP, O_MAX };
static void audit_srclen(int s, const char *when);
enum { A_NONE, A_STOP, A_DEREG, A_PAUSE, A_START, A_RESUME, A_TELL, A_PUB, A_QUIT, A_SUB, A_UNSUB, A_STASH, A_UNSTASH, A_BECOME, A_UNBECOME,
       A_RETAIN, A_ERRNO, A_CTXCALL, A_PILL, A_BCAST, A_TICK, A_SRCDEREG, A_MAX };
static const char *AN[] = { "none", "stop", "deregister", "pause", "start", "resume", "tell", "publish", "quit", "subscribe", "unsubscribe", "stash", "unstash", "become", "unbecome",
                            "retain-event", "set-errno", "ctx-call", "poisonpill", "broadcast", "toggle-tick", "deregister-the-event's-source" };
static const m_mod_flags MFLAGS[] = { 0, M_MOD_ALLOW_REPLACE, M_MOD_PERSIST, M_MOD_DENY_CTX, M_MOD_DENY_PUB, M_MOD_DENY_SUB, M_MOD_NAME_DUP, M_MOD_NAME_AUTOFREE | M_MOD_USERDATA_AUTOFREE };
static const char *MFLAGN[] = { "-", "ALLOW_REPLACE", "PERSIST", "DENY_CTX", "DENY_PUB", "DENY_SUB", "NAME_DUP", "NAME_AUTOFREE|USERDATA_AUTOFREE" };
static const int ERRNOS[] = { EINTR, EAGAIN, ENOENT, EBADF };
static const size_t UNST[] = { 1, 2, 3, 5, SIZE_MAX };
static const size_t BSZ[] = { 0, 1, 2, 3 };
enum { INJ_WRITE_EAGAIN, INJ_EPOLL_EINTR, INJ_EPOLL_EBADF, INJ_CTL_DEL };

static m_mod_t *handle(int s) { return MD[s].present ? MD[s].h : (MD[s].extra > 0 ? MD[s].ptr : NULL); }
static int mflag(int s, m_mod_flags f) { return MD[s].present && (MFLAGS[MD[s].flagsidx] & f) != 0; }
/* while a callback of a DENY_CTX module executes, the context is hidden: what module calls do then is unspecified */
static int ctx_hidden(void) { return in_cb_slot >= 0 && mflag(in_cb_slot, M_MOD_DENY_CTX); }

/* ---- snapshot for "a refused call changes nothing" ---- */
typedef struct { int st[NM]; int ncb[NM][NCB]; long srclen[NM]; long ctxlen; int nmb[NM]; } snap_t;
static void take_snap(snap_t *sn) {
    memset(sn, 0, sizeof *sn);
    for (int s = 0; s < NM; s++) {
        m_mod_t *h = handle(s);
        sn->st[s] = h ? (int)m_mod_state(h) : 0;
        memcpy(sn->ncb[s], MD[s].ncb, sizeof sn->ncb[s]);
        sn->srclen[s] = (h && MD[s].present && !ctx_hidden()) ? (long)m_mod_src_len(h, M_SRC_TYPE_END) : -99;
        sn->nmb[s] = MD[s].nmb;
    }
    sn->ctxlen = ctx_hidden() ? -99 : (long)m_ctx_len();
}
static void check_unchanged(const snap_t *a, const char *what, const char *sigtail) {
    snap_t b; take_snap(&b);
    for (int s = 0; s < NM; s++) {
        if (a->st[s] != b.st[s]) vfail("ST.refuse", sigtail, "%s was refused but changed the state of %s (%#x -> %#x)", what, MD[s].name, a->st[s], b.st[s]);
        for (int k = 0; k < NCB; k++) if (a->ncb[s][k] != b.ncb[s][k]) vfail("ST.refuse", sigtail, "%s was refused but %s of %s ran", what, CBN[k], MD[s].name);
        if (a->srclen[s] != b.srclen[s]) vfail("ST.refuse", sigtail, "%s was refused but the source count of %s changed (%ld -> %ld)", what, MD[s].name, a->srclen[s], b.srclen[s]);
    }
    if (a->ctxlen != b.ctxlen) vfail("ST.refuse", sigtail, "%s was refused but the number of modules changed", what);
}
#define REFUSED(rc, what, sig) do { if ((rc) >= 0) vfail("ST.refuse", sig, "%s returned %d, expected a negative code", what, (int)(rc)); check_unchanged(&sn, what, sig); } while (0)
#define MUST_OK(rc, what, sig) do { if ((rc) != 0) vfail("ST.accept", sig, "%s returned %d, expected 0", what, (int)(rc)); } while (0)

static void do_api(op_t op);

static void run_armed(int s, int kind) {
    int act = MD[s].armed[kind].act, arg = MD[s].armed[kind].arg;
    if (!act) return;
    MD[s].armed[kind].act = 0;
    TRACE("  armed action in %s(%s): %s(%d)", CBN[kind], MD[s].name, AN[act], arg);
    switch (act) {
    case A_STOP: do_api((op_t){O_STOP, arg}); break;
    case A_DEREG: do_api((op_t){O_DEREG, arg}); break;
    case A_PAUSE: do_api((op_t){O_PAUSE, arg}); break;
    case A_START: do_api((op_t){O_START, arg}); break;
    case A_RESUME: do_api((op_t){O_RESUME, arg}); break;
    case A_TELL: do_api((op_t){O_TELL, s, arg, 0}); break;
    case A_PILL: do_api((op_t){O_PILL, s, arg, 0}); break;
    case A_PUB: do_api((op_t){O_PUB, s, arg, 0}); break;
    case A_BCAST: do_api((op_t){O_BCAST, s, 0, 0}); break;
    case A_QUIT: do_api((op_t){O_QUIT, arg}); break;
    case A_SUB: do_api((op_t){O_SUB, s, arg, PR_NORM}); break;
    case A_UNSUB: do_api((op_t){O_UNSUB, s, arg}); break;
    case A_UNSTASH: do_api((op_t){O_UNSTASH, s, arg}); break;
    case A_BECOME: do_api((op_t){O_BECOME, s, arg}); break;
    case A_UNBECOME: do_api((op_t){O_UNBECOME, s}); break;
    case A_CTXCALL: do_api((op_t){O_CTXCALL, arg}); break;
    case A_TICK: do_api((op_t){O_SET_TICK, arg ? arg : !CX.tick}); break;      /* arg 0: toggle; 1/2: set that period */
    case A_ERRNO: errno = ERRNOS[arg & 3]; break;
    case A_STASH: {          /* stash events of the current invocation: arg 0 first, 1 last, 2 all */
        if (kind != CB_EVT) break;
        for (int i = 0; i < ncur; i++) {
            if ((arg == 0 && i != 0) || (arg == 1 && i != ncur - 1)) continue;
            const m_evt_t *e = cur_evts[i]; int r = cur_evrec[i];
            int prio_high = e->type == M_SRC_TYPE_FD;
            if (e->type == M_SRC_TYPE_PS && r >= 0) prio_high = EV[r].prio == PR_HIGH;      /* priority of the subscription it came through */
            int rc = m_mod_stash(MD[s].h, e);
            int legal = MD[s].st == S_RUNNING && !prio_high;
            if (ON(R_SH)) {
                if (legal && rc != 0) vfail("SH.admit", "SH.admit|refused", "m_mod_stash of a normal-priority event by RUNNING %s returned %d", MD[s].name, rc);
                if (!legal && rc >= 0) vfail("SH.admit", "SH.admit|accepted", "m_mod_stash accepted although %s", prio_high ? "the event is high priority" : "the module is not RUNNING");
            }
            if (rc == 0 && r >= 0) { MD[s].stash[MD[s].nst++] = r; EV[r].refs++; MD[s].life |= 8; }
        }
        break; }
    case A_SRCDEREG: {      /* the handler deregisters the source its (first) event came from; arg 1: and then stops its own module */
        if (kind != CB_EVT || !ncur || cur_evrec[0] < 0) break;
        evrec_t *r = &EV[cur_evrec[0]]; int k = r->kind == 1 ? K_FD : r->kind == 2 ? K_TMR : -1;
        int dupfd = 0; for (int j = 0; j < MAXSRC; j++) if (MD[s].src[j].present && MD[s].src[j].kind == K_FD && MD[s].src[j].key == r->key && (MD[s].src[j].flags & 4)) dupfd = 1;
        if (k >= 0 && !(k == K_FD && dupfd)) do_api((op_t){O_SRC_DEREG, s, k * 16 + r->key});      /* (how to name a DUP descriptor source is unspecified) */
        if (arg && MD[s].present) do_api((op_t){O_STOP, s});
        break; }
    case A_RETAIN: {
        if (kind != CB_EVT || !ncur) break;
        int i = arg ? ncur - 1 : 0; if (cur_evrec[i] < 0) break;
        m_mem_ref((void *)cur_evts[i]); EV[cur_evrec[i]].refs++; retained[nret++] = cur_evrec[i];
        break; }
    }
}

/* after a top-level operation: every observable agrees with the monitor */
static void audit(const char *when) {
    mon_flush();
    if (lg_err) vfail("LG.mem", "LG.mem|bad-free", "double or foreign free of %p (%s)", lg_err_ptr, when);
    if (shim_bad_close && ON(R_FD)) vfail("LG.fd", "LG.fd|bad-close", "library closed fd %d: %s (%s)", shim_bad_close - 1, shim_bad_close_why, when);
    for (int s = 0; s < NM; s++) {
        if (exp_start[s]) vfail("CB.pair", "CB.pair|start-missing", "on_start of %s did not run although it entered RUNNING (%s)", MD[s].name, when);
        if (exp_stop_run[s] || exp_stop_other[s]) vfail("CB.pair", "CB.pair|stop-missing", "on_stop of %s did not run although it was stopped while RUNNING/PAUSED (%s)", MD[s].name, when);
        opt_stop[s] = 0;
        m_mod_t *h = handle(s); if (!h) continue;
        int want = MD[s].st == S_IDLE ? M_MOD_IDLE : MD[s].st == S_RUNNING ? M_MOD_RUNNING : MD[s].st == S_PAUSED ? M_MOD_PAUSED : MD[s].st == S_STOPPED ? M_MOD_STOPPED : M_MOD_ZOMBIE;
        int got = m_mod_state(h);
        if (got != want && ON(R_ST)) vfail("ST.edge", "ST.edge|state", "%s is in state %#x, monitor expects %s (%s)", MD[s].name, got, SN[MD[s].st], when);
        const char *nm = m_mod_name(h);
        if (!nm || strcmp(nm, MD[s].name)) vfail("ST.zombie", "ST.zombie|name", "name query on %s returned %s", MD[s].name, nm ? nm : "NULL");
        if (!m_mod_is(h, want)) vfail("ST.edge", "ST.edge|is", "m_mod_is disagrees with m_mod_state for %s", MD[s].name);
    }
    for (int s = 0; s < NM; s++) {      /* user data flagged auto-free stays valid as long as its source / subscription is registered */
        for (int j = 0; j < MAXSRC; j++) if (MD[s].src[j].present && (MD[s].src[j].flags & 8) && !lg_is_live(SRCUPH[s][j]))
            vfail("SR.autofree", "SR.autofree|early", "auto-free user data of %s's %s source #%d released while the source is still registered (%s)", MD[s].name, KN[MD[s].src[j].kind], MD[s].src[j].key, when);
        for (int q = 0; q < NPAT; q++) if (MD[s].sub[q].present && MD[s].sub[q].af && !lg_is_live(UPVH[s][q]))
            vfail("SR.autofree", "SR.autofree|early-sub", "auto-free user data of %s's subscription %s released while the subscription is still present (%s)", MD[s].name, PAT[q], when);
    }
    if (ON(R_SR)) for (int s = 0; s < NM; s++) audit_srclen(s, when);
    if (ctx_hidden()) return;
    ssize_t len = m_ctx_len();
    if (CX.exists) {
        if (len != n_present() && ON(R_CX | R_ST)) vfail("CX.len", "CX.len", "context reports %zd modules, monitor has %d (%s)", len, n_present(), when);
        m_ctx_stats_t st; int rc = m_ctx_stats(&st);
        if (CX.looping) {
            if (rc != 0) vfail("LP.ret", "LP.ret|unexpected-stop", "the context is no longer looping although no quit was requested, a module is RUNNING and no poll failure was injected (%s)", when);
            if (ON(R_CT) && (int)st.running_modules != n_running()) vfail("CT.count", "CT.count", "context reports %zu running modules, %d modules are in RUNNING state (%s)", st.running_modules, n_running(), when);
        } else if (rc == 0) vfail("LP.ret", "LP.ret|still-looping", "context still looping although the loop was stopped (%s)", when);
    } else if (len >= 0 && ON(R_CX)) vfail("CX.gone", "CX.gone", "m_ctx_len works although the thread has no context (%s)", when);
}

/* EV.pass: after a pass boundary every IDLE module whose evaluation is absent/true is RUNNING */
static void check_pass(const char *when) {
    if (!ON(R_EV) || CX.pass_changed) { CX.pass_changed = 0; return; }
    for (int s = 0; s < NM; s++) if (MD[s].present && MD[s].st == S_IDLE && MD[s].evalmode != 2)
        vfail("EV.pass", "EV.pass|not-started", "%s is still IDLE after %s although its evaluation callback is %s", MD[s].name, when, MD[s].evalmode ? "returning true" : "absent");
}

static int replacing_now;      /* a module is being replaced (M_MOD_ALLOW_REPLACE): its successor goes in right away, so the context is not released for being empty in between */
static void set_zombie(int s) {
    MD[s].present = 0; MD[s].st = S_ZOMBIE; MD[s].h = NULL; mt_del_all(s);
    memset(MD[s].armed, 0, sizeof MD[s].armed);
    if (in_pass) CX.pass_changed = 1;
    if (CX.exists && !CX.persist && !CX.looping && n_present() == 0 && !replacing_now) { CX.exists = 0; TRACE("context auto-released"); }
}
static void teardown_zombie(int s) {   /* context teardown: this module has been stopped and is a ZOMBIE from now on */
    MD[s].present = 0; MD[s].st = S_ZOMBIE; if (MD[s].h) { MD[s].extra++; MD[s].h = NULL; } mt_del_all(s); memset(MD[s].armed, 0, sizeof MD[s].armed);
}
#include "world_api.h"
#endif
