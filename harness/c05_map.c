/* C05 — string-keyed map as a dictionary.  Real m_map_* against a dictionary monitor.
 * Built twice: with -DLIBMODULE_VERIF_MAP_SIZE=8 (tiny table: collisions, wrapped clusters, growth) and at the default size.
 * Config: --flags <bitmask: 1 KEY_DUP, 2 KEY_AUTOFREE, 4 VAL_ALLOW_UPDATE> --dtor 0|1 --nkeys N --maxlive M */
#define LG_CAP 1024
#include "../engine/ledger.h"
#include "../engine/seqx.h"
#include <module/structs/itr.h>

typedef struct { void *(*_malloc)(size_t); void *(*_calloc)(size_t, size_t); void (*_free)(void *); } m_memhook_t;
extern m_memhook_t memhook;

static int F_DUP, F_AUTOFREE, F_UPDATE, DTOR = 1, NK = 6, MAXLIVE = 7;
static char cfgbuf[128];
enum { O_PUT, O_PUTSAME, O_RM, O_GET, O_CLEAR, O_ITERATE, O_ITR_NEW, O_ITR_NEXT, O_ITR_SET, O_ITR_RM, O_ITR_DROP };
/* iterate modes */
enum { IT_COUNT, IT_RMALL, IT_RMODD, IT_RMEVEN, IT_STOPPOS, IT_STOPNEG, IT_NMODES };

#define MAXK 12
static char KEYS[MAXK][8];
#define MAXV 96
static int V[MAXV]; static int nV;              /* value cells: fresh identity per put */
static int dcalls[MAXV], dexpect[MAXV], replaced[MAXV];

/* model */
static int val[MAXK];                            /* value id stored under key, or -1 */
static int cnt, maxlen_ever;
static int it_live, it_cur, it_removed; static unsigned it_unvisited;    /* bitmask of keys still to be yielded */
static void *pending[64]; static int npending;   /* harness-allocated keys passed in puts that hit an existing key (AUTOFREE without DUP): ownership unspecified */
/* real */
static m_map_t *M; static m_map_itr_t *IT;

static int key_index(const char *k) { for (int i = 0; i < MAXK; i++) if (!strcmp(k, KEYS[i])) return i; return -1; }
static void dtor_cb(void *p) {
    int *v = p;
    if (v < V || v >= V + MAXV) sx_fail("MAP.dtor", "MAP.dtor|foreign", "value destructor called with a pointer that is not a stored value");
    dcalls[v - V]++; sx_obs(900 + (v - V));
}
static void audit_dtor(const char *when) {
    for (int i = 0; i < nV; i++) {
        if (!DTOR) { if (dcalls[i]) sx_fail("MAP.dtor", "MAP.dtor|nodtor", "destructor ran although none configured"); continue; }
        if (dcalls[i] == dexpect[i]) continue;
        if (replaced[i] && dcalls[i] == dexpect[i] + 1) { dexpect[i]++; replaced[i] = 0; continue; }    /* itr_set_data may or may not destroy the replaced value */
        sx_fail("MAP.dtor", dcalls[i] > dexpect[i] ? "MAP.dtor|extra" : "MAP.dtor|missing", "value v%d: destructor ran %d times, expected %d (%s)", i, dcalls[i], dexpect[i], when);
    }
}
static int order[MAXK], norder;                  /* observed iteration order (read-only), part of the dedup key */
static unsigned seen_mask; static int vis_n, vis_mode;
static int count_cb(void *up, const char *key, void *value) {
    (void)up; int k = key_index(key);
    if (k < 0) sx_fail("MAP.iter", "MAP.iter|ghost", "iteration yielded an unknown key");
    if (seen_mask & (1u << k)) sx_fail("MAP.iter", "MAP.iter|twice", "callback iteration visited key %s twice", key);
    seen_mask |= 1u << k;
    if (val[k] < 0) sx_fail("MAP.iter", "MAP.iter|dead", "iteration yielded key %s which is not live", key);
    if (value != &V[val[k]]) sx_fail("MAP.iter", "MAP.iter|value", "iteration yielded a wrong value for key %s", key);
    if (norder < MAXK) order[norder++] = k;
    return 0;
}
static int expected_blocks(void) {
    int e = 2 + (it_live ? 1 : 0);
    if (F_DUP || F_AUTOFREE) e += cnt;
    for (int i = 0; i < npending; i++) if (lg_is_live(pending[i])) e++;
    return e;
}
static void audit(const char *when) {
    if (lg_err) sx_fail("LG.mem", "LG.mem|bad-free", "double or foreign free (%s)", when);
    ssize_t len = m_map_len(M);
    if (len != cnt) sx_fail("MAP.len", "MAP.len", "len %zd, monitor %d (%s)", len, cnt, when);
    for (int k = 0; k < NK; k++) {
        void *r = m_map_get(M, KEYS[k]); bool c = m_map_contains(M, KEYS[k]);
        if (val[k] < 0 ? r != NULL : r != &V[val[k]]) sx_fail("MAP.get", val[k] < 0 ? "MAP.get|ghost" : "MAP.get|lost", "get(%s) returned %s, monitor says %s (%s)", KEYS[k], r ? "a value" : "NULL", val[k] < 0 ? "absent" : "present", when);
        if (c != (val[k] >= 0)) sx_fail("MAP.get", "MAP.contains", "contains(%s)=%d (%s)", KEYS[k], c, when);
    }
    norder = 0; seen_mask = 0;
    if (cnt > 0) { int rc = m_map_iterate(M, count_cb, NULL); if (rc) sx_fail("MAP.iter", "MAP.iter|rc", "iterate returned %d (%s)", rc, when); }
    if (norder != cnt) sx_fail("MAP.iter", "MAP.iter|count", "callback iteration visited %d entries, %d are live (%s)", norder, cnt, when);
    audit_dtor(when);
    if (lg_live != expected_blocks()) sx_fail("LG.mem", lg_live > expected_blocks() ? "LG.mem|key-leak" : "LG.mem|count", "%d blocks outstanding, monitor expects %d (map+table%s + one key copy per live entry) (%s)", lg_live, expected_blocks(), it_live ? "+iterator" : "", when);
}

static void h_reset(void) {
    memhook._malloc = lg_malloc; memhook._calloc = lg_calloc; memhook._free = lg_free;
    for (int k = 0; k < MAXK; k++) { val[k] = -1; }
    nV = 0; cnt = 0; maxlen_ever = 0; it_live = 0; it_cur = -1; it_removed = 0; it_unvisited = 0; npending = 0; IT = NULL; norder = 0;
    memset(dcalls, 0, sizeof dcalls); memset(dexpect, 0, sizeof dexpect); memset(replaced, 0, sizeof replaced);
    int flags = (F_DUP ? M_MAP_KEY_DUP : 0) | (F_AUTOFREE ? M_MAP_KEY_AUTOFREE : 0) | (F_UPDATE ? M_MAP_VAL_ALLOW_UPDATE : 0);
    M = m_map_new(flags, DTOR ? dtor_cb : NULL);
    if (!M) sx_fail("MAP.new", "MAP.new", "m_map_new returned NULL");
}
static void h_cleanup(void) { lg_reset(); }

static const char *key_arg(int k, int exists) {
    if (F_DUP || !F_AUTOFREE) return KEYS[k];            /* map copies (DUP) or borrows (no flag) the caller's string */
    char *p = lg_malloc(8); strcpy(p, KEYS[k]);          /* AUTOFREE without DUP: ownership of a heap key passes to the map */
    if (exists && npending < 64) pending[npending++] = p;
    return p;
}
static int *fresh_val(void) { if (nV >= MAXV) sx_fail("INTERNAL", "INTERNAL", "value pool exhausted"); V[nV] = nV; return &V[nV++]; }

/* iterate with side effects */
static int it_mode, it_idx; static unsigned it_seen; static int it_removed_n;
static int rm_cb(void *up, const char *key, void *value) {
    (void)up; (void)value; int k = key_index(key);
    if (k < 0) sx_fail("MAP.iter", "MAP.iter|ghost", "iteration yielded an unknown key");
    if (it_seen & (1u << k)) sx_fail("MAP.iter", "MAP.iter|twice", "iteration with removal visited key %s twice", key);
    if (val[k] < 0) sx_fail("MAP.iter", "MAP.iter|dead", "iteration yielded removed key %s", key);
    it_seen |= 1u << k;
    int idx = it_idx++;
    if (it_mode == IT_STOPPOS && idx == 1) return 1;
    if (it_mode == IT_STOPNEG && idx == 1) return -7;
    if (it_mode == IT_RMALL || (it_mode == IT_RMODD && (idx & 1)) || (it_mode == IT_RMEVEN && !(idx & 1))) {
        int rc = m_map_remove(M, KEYS[k]);
        if (rc) sx_fail("MAP.rm", "MAP.rm|rc", "remove of the current entry inside iterate returned %d", rc);
        dexpect[val[k]]++; val[k] = -1; cnt--; it_removed_n++;
    }
    return 0;
}

static void itr_observe(void) {        /* after itr_new / itr_next: which key is current? */
    if (!IT) {
        if (it_unvisited) { int k = __builtin_ctz(it_unvisited); sx_fail("MAP.itr", "MAP.itr|missed", "iterator ended without visiting key %s", KEYS[k]); }
        it_live = 0; it_cur = -1; return;
    }
    const char *key = m_map_itr_get_key(IT); void *d = m_map_itr_get_data(IT);
    int k = key ? key_index(key) : -1;
    if (k < 0) sx_fail("MAP.itr", "MAP.itr|ghost", "iterator yields an unknown key");
    if (val[k] < 0) sx_fail("MAP.itr", "MAP.itr|dead", "iterator yields key %s which is not live", key);
    if (!(it_unvisited & (1u << k))) sx_fail("MAP.itr", "MAP.itr|twice", "iterator yields key %s a second time", key);
    if (d != &V[val[k]]) sx_fail("MAP.itr", "MAP.itr|value", "iterator yields a wrong value for key %s", key);
    it_unvisited &= ~(1u << k); it_cur = k; it_removed = 0; sx_obs(k);
}

static void h_apply(op_t op) {
    int rc, k = op.a;
    switch (op.c) {
    case O_PUT: case O_PUTSAME: {
        int exists = val[k] >= 0;
        int *v = (op.c == O_PUTSAME) ? &V[val[k]] : fresh_val();
        rc = m_map_put(M, key_arg(k, exists), v);
        if (!exists) {
            if (rc == -ENOMEM) sx_fail("MAP.put", "MAP.put|enomem", "put of a new key failed with ENOMEM although memory is available");
            if (rc) sx_fail("MAP.put", "MAP.put|new", "put of a new key returned %d", rc);
            val[k] = v - V; cnt++; if (cnt > maxlen_ever) maxlen_ever = cnt;
        } else if (F_UPDATE) {
            if (rc) sx_fail("MAP.put", "MAP.put|update", "put on an existing key (updates allowed) returned %d", rc);
            if (&V[val[k]] != v) dexpect[val[k]]++;
            val[k] = v - V;
        } else {
            if (rc >= 0) sx_fail("MAP.put", "MAP.put|refuse", "put on an existing key (updates not allowed) returned %d", rc);
        }
        break; }
    case O_RM:
        rc = m_map_remove(M, KEYS[k]);
        if (val[k] < 0) { if (rc >= 0) sx_fail("MAP.rm", "MAP.rm|absent", "remove of an absent key returned %d", rc); }
        else { if (rc) sx_fail("MAP.rm", "MAP.rm|rc", "remove of a present key returned %d", rc); dexpect[val[k]]++; val[k] = -1; cnt--; }
        break;
    case O_GET: break;
    case O_CLEAR:
        rc = m_map_clear(M);
        if (rc) sx_fail("MAP.clear", "MAP.clear|rc", "clear returned %d", rc);
        for (int i = 0; i < MAXK; i++) if (val[i] >= 0) { dexpect[val[i]]++; val[i] = -1; }
        cnt = 0; break;
    case O_ITERATE: {
        it_mode = op.a; it_idx = 0; it_seen = 0; it_removed_n = 0;
        unsigned live = 0; for (int i = 0; i < MAXK; i++) if (val[i] >= 0) live |= 1u << i;
        int before = cnt;
        rc = m_map_iterate(M, rm_cb, NULL);
        if (before == 0) break;
        if (it_mode == IT_STOPNEG && before >= 2) { if (rc != -7) sx_fail("MAP.iter", "MAP.iter|rc", "iterate returned %d instead of the callback's negative value", rc); break; }
        if (rc) sx_fail("MAP.iter", "MAP.iter|rc", "iterate returned %d", rc);
        if (it_mode == IT_STOPPOS && before >= 2) break;
        if (it_seen != live) { unsigned miss = live & ~it_seen; sx_fail("MAP.iter", "MAP.iter|missed", "iteration (mode %d) did not visit key %s", it_mode, KEYS[__builtin_ctz(miss)]); }
        break; }
    case O_ITR_NEW:
        IT = m_map_itr_new(M);
        if (cnt == 0) { if (IT) sx_fail("MAP.itr", "MAP.itr|new-empty", "iterator on an empty map"); break; }
        if (!IT) sx_fail("MAP.itr", "MAP.itr|new-null", "itr_new returned NULL on a non-empty map");
        it_live = 1; it_unvisited = 0; for (int i = 0; i < MAXK; i++) if (val[i] >= 0) it_unvisited |= 1u << i;
        itr_observe(); break;
    case O_ITR_NEXT:
        rc = m_map_itr_next(&IT);
        if (rc) sx_fail("MAP.itr", "MAP.itr|next-rc", "itr_next returned %d", rc);
        itr_observe(); break;
    case O_ITR_SET: {
        int *v = fresh_val();
        rc = m_map_itr_set_data(IT, v);
        if (it_removed) { if (rc >= 0) sx_fail("MAP.itr", "MAP.itr|set-removed", "itr_set on a removed position returned %d", rc); break; }
        if (rc) sx_fail("MAP.itr", "MAP.itr|set-rc", "itr_set returned %d", rc);
        replaced[val[it_cur]] = 1; val[it_cur] = v - V; break; }
    case O_ITR_RM:
        rc = m_map_itr_remove(IT);
        if (it_removed) { if (rc >= 0) sx_fail("MAP.itr", "MAP.itr|rm-twice", "second itr_remove on the same position returned %d", rc); break; }
        if (rc) sx_fail("MAP.itr", "MAP.itr|rm-rc", "itr_remove returned %d", rc);
        dexpect[val[it_cur]]++; val[it_cur] = -1; cnt--; it_removed = 1; break;
    case O_ITR_DROP: lg_free(IT); IT = NULL; it_live = 0; break;
    }
    audit("after op");
}

static int h_enabled(op_t *o, int max) {
    int n = 0; (void)max;
    if (it_live) {
        o[n++] = (op_t){O_ITR_NEXT}; o[n++] = (op_t){O_ITR_RM}; o[n++] = (op_t){O_ITR_SET}; o[n++] = (op_t){O_ITR_DROP};
        return n;
    }
    for (int k = 0; k < NK; k++) {
        if (val[k] >= 0 || cnt < MAXLIVE) o[n++] = (op_t){O_PUT, k};
        if (val[k] >= 0) o[n++] = (op_t){O_PUTSAME, k};
        o[n++] = (op_t){O_RM, k};
    }
    if (cnt > 0) for (int m = 1; m < IT_NMODES; m++) { if ((m == IT_STOPPOS || m == IT_STOPNEG || m == IT_RMODD) && cnt < 2) continue; o[n++] = (op_t){O_ITERATE, m}; }
    o[n++] = (op_t){O_ITR_NEW}; o[n++] = (op_t){O_CLEAR};
    return n;
}

static void h_canon(char *b, size_t cap) {
    /* observed iteration order (layout), stored-value kinds, growth history, iterator state */
    int p = snprintf(b, cap, "ord:");
    for (int i = 0; i < norder; i++) p += snprintf(b + p, cap - p, "%d%s,", order[i], replaced[val[order[i]]] ? "r" : "");
    p += snprintf(b + p, cap - p, "|max%d|it%d:%d:%d:%x|pend", maxlen_ever, it_live, it_cur, it_removed, it_unvisited);
    for (int i = 0; i < npending; i++) p += snprintf(b + p, cap - p, "%d", lg_is_live(pending[i]));
}

static void final_free(void) {
    int rc = m_map_free(&M);
    if (rc || M) sx_fail("MAP.free", "MAP.free", "free returned %d / handle %s", rc, M ? "not cleared" : "cleared");
    for (int i = 0; i < MAXK; i++) if (val[i] >= 0) { dexpect[val[i]]++; val[i] = -1; }
    cnt = 0;
    audit_dtor("after free");
    if (lg_err) sx_fail("LG.mem", "LG.mem|bad-free", "double or foreign free");
    for (int i = 0; i < npending; i++) if (lg_is_live(pending[i])) lg_free(pending[i]);     /* caller-owned leftovers */
    if (lg_live) sx_fail("LG.mem", "LG.mem|leak", "%d blocks outstanding after free (leaked key copies?)", lg_live);
}
static void h_probe(int which) {
    if (it_live) h_apply((op_t){O_ITR_DROP});
    switch (which) {
    case 0: final_free(); break;
    case 1: {    /* iterator pass removing every entry; then reuse */
        h_apply((op_t){O_ITR_NEW}); int g = 0;
        while (it_live && g++ < 40) { h_apply((op_t){O_ITR_RM}); h_apply((op_t){O_ITR_NEXT}); }
        if (cnt) sx_fail("MAP.itr", "MAP.itr|pass", "%d entries left after a remove-all iterator pass", cnt);
        h_apply((op_t){O_PUT, 0}); h_apply((op_t){O_PUT, 1}); final_free(); break; }
    case 2: {    /* callback iteration removing every entry; then reuse */
        h_apply((op_t){O_ITERATE, IT_RMALL});
        if (cnt) sx_fail("MAP.iter", "MAP.iter|pass", "%d entries left after a remove-all callback iteration", cnt);
        h_apply((op_t){O_PUT, 1}); final_free(); break; }
    case 3: {    /* plain iterator pass, then remove every key by name, then reuse */
        h_apply((op_t){O_ITR_NEW}); int g = 0;
        while (it_live && g++ < 40) h_apply((op_t){O_ITR_NEXT});
        for (int k = NK - 1; k >= 0; k--) if (val[k] >= 0) h_apply((op_t){O_RM, k});
        h_apply((op_t){O_PUT, 2}); h_apply((op_t){O_PUT, 2}); final_free(); break; }
    case 4: h_apply((op_t){O_CLEAR}); h_apply((op_t){O_PUT, 0}); h_apply((op_t){O_PUT, 3}); h_apply((op_t){O_RM, 0}); final_free(); break;
    }
}
static void h_fmt(op_t op, char *b, size_t cap) {
    static const char *nm[] = { "put", "put_same_value", "remove", "get", "clear", "iterate", "itr_new", "itr_next", "itr_set", "itr_remove", "itr_drop" };
    static const char *im[] = { "count", "remove-all", "remove-odd-visits", "remove-even-visits", "stop>0@2nd", "stop<0@2nd" };
    if (op.c <= O_GET) snprintf(b, cap, "%s(%s)", nm[op.c], KEYS[op.a]);
    else if (op.c == O_ITERATE) snprintf(b, cap, "iterate(%s)", im[op.a]);
    else snprintf(b, cap, "%s", nm[op.c]);
}
static void h_config(int argc, char **argv) {
    int fl = 0; const char *names = NULL;
    for (int i = 1; i < argc - 1; i++) {
        if (!strcmp(argv[i], "--flags")) fl = atoi(argv[i + 1]);
        if (!strcmp(argv[i], "--dtor")) DTOR = atoi(argv[i + 1]);
        if (!strcmp(argv[i], "--nkeys")) NK = atoi(argv[i + 1]);
        if (!strcmp(argv[i], "--maxlive")) MAXLIVE = atoi(argv[i + 1]);
        if (!strcmp(argv[i], "--keys")) names = argv[i + 1];      /* comma separated key names (adversarial sets) */
    }
    F_DUP = fl & 1; F_AUTOFREE = (fl & 2) || F_DUP; F_UPDATE = !!(fl & 4);
    if (NK > MAXK) NK = MAXK;
    for (int i = 0; i < MAXK; i++) snprintf(KEYS[i], 8, "k%d", i);
    if (names) { char buf[256]; snprintf(buf, sizeof buf, "%s", names); int i = 0; for (char *t = strtok(buf, ","); t && i < MAXK; t = strtok(NULL, ","), i++) snprintf(KEYS[i], 8, "%s", t); if (i < NK) NK = i; }
#ifdef LIBMODULE_VERIF_MAP_SIZE
    int tsz = LIBMODULE_VERIF_MAP_SIZE;
#else
    int tsz = 256;
#endif
    snprintf(cfgbuf, sizeof cfgbuf, "table=%d flags=%s%s%s dtor=%d nkeys=%d maxlive=%d", tsz, F_DUP ? "DUP," : "", (F_AUTOFREE && !F_DUP) ? "AUTOFREE," : "", F_UPDATE ? "UPDATE" : "", DTOR, NK, MAXLIVE);
}
static const char *h_cfg(void) { return cfgbuf; }
int main(int argc, char **argv) {
    static const sx_harness H = { "c05_map", h_config, h_reset, h_enabled, h_apply, h_canon, 5, h_probe, h_cleanup, h_fmt, h_cfg, NULL };
    return sx_main(argc, argv, &H);
}
