/* C12 — queue / stack / list order disciplines under all operations and iterator edits.
 * Real containers against an array monitor ("cursor position in the array" iterator semantics).
 * Config: --kind queue|stack|list  --dtor 0|1  --cmp 0|1 (list only)  --maxn N */
#define LG_CAP 1024
#include "../engine/ledger.h"
#include "../engine/seqx.h"
#include <module/structs/itr.h>

typedef struct { void *(*_malloc)(size_t); void *(*_calloc)(size_t, size_t); void (*_free)(void *); } m_memhook_t;
extern m_memhook_t memhook;

enum { K_QUEUE, K_STACK, K_LIST };
static int KIND = K_QUEUE, DTOR = 1, CMP = 0, MAXN = 4;
static char cfgbuf[96];

enum { O_INS, O_TAKE, O_PEEK, O_RM, O_LEN, O_CLEAR, O_ITERATE, O_ITR_NEW, O_ITR_NEXT, O_ITR_GET, O_ITR_SET, O_ITR_RM, O_ITR_INS, O_ITR_DROP,
       O_RMPTR, O_RMKEY, O_RMABSENT, O_FINDPTR, O_FINDKEY, O_FINDABSENT };

/* elements: fresh identity per insertion */
typedef struct { int id, cls, probe; } elem_t;      /* probe: what the key-style comparator (--cmp 2) reads from its first argument */
#define MAXE 96
static elem_t E[MAXE]; static int nE;
static int dcount[MAXE];           /* destructor calls per element */
static int expect_d[MAXE];         /* monitor: expected destructor calls per element */
static int replaced[MAXE];         /* replaced through itr_set: destructor call optional (0 or 1) */
static elem_t KEY[2] = { {-1, 0, 0}, {-2, 1, 1} }, ABSENT = { -3, 7, 7 };

/* model */
static int arr[16], n;             /* container order: queue head..tail, stack top..bottom, list head..tail */
static int it_live, it_pos, it_removed;   /* queue/stack: removed flag; list: see edits */
static int it_nrm, it_nins, it_first;     /* list: edits since last next; it_first = first edit kind (1 ins, 2 rm) */

/* real */
static m_queue_t *Q; static m_stack_t *S; static m_list_t *L;
static m_queue_itr_t *QI; static m_stack_itr_t *SI; static m_list_itr_t *LI;

static void dtor_cb(void *p) {
    elem_t *e = p;
    if (e < E || e >= E + MAXE) sx_fail("CT.dtor", "CT.dtor|foreign", "destructor called with a pointer that is not an element");
    dcount[e->id]++; sx_obs(500 + e->id);
}
static int cmp_cb(void *a, void *b) { return ((elem_t *)a)->cls - ((elem_t *)b)->cls; }
/* --cmp 2: the documented "first argument is a key, second an element" shape: an element passed as the key never compares equal to
 * anything (its probe field is outside the class range), so finding / removing it by pointer must fall back on pointer identity */
static int cmp_key_cb(void *a, void *b) { return ((elem_t *)a)->probe - ((elem_t *)b)->cls; }

static void audit_dtor(const char *when) {
    for (int i = 0; i < nE; i++) {
        if (!DTOR) { if (dcount[i]) sx_fail("CT.dtor", "CT.dtor|nodtor", "destructor ran although none was configured"); continue; }
        if (dcount[i] == expect_d[i]) continue;
        if (replaced[i] && dcount[i] == expect_d[i] + 1) { expect_d[i]++; replaced[i] = 0; continue; }   /* silent: set_data may or may not destroy the old value */
        sx_fail("CT.dtor", dcount[i] > expect_d[i] ? "CT.dtor|extra" : "CT.dtor|missing", "element e%d: destructor ran %d times, expected %d (%s)", i, dcount[i], expect_d[i], when);
    }
}
static int in_arr(int id) { for (int i = 0; i < n; i++) if (arr[i] == id) return 1; return 0; }

static int vis[32], nvis, vis_stop, vis_mode;
static int iter_cb(void *up, void *data) {
    elem_t *e = data; (void)up;
    if (e < E || e >= E + MAXE) sx_fail("CT.iter", "CT.iter|foreign", "iteration yielded a pointer that is not an element");
    if (nvis < 32) vis[nvis++] = e->id;
    if (vis_mode && nvis == 2) return vis_mode == 1 ? 1 : -5;
    return 0;
}
/* read-only check of the whole container against the model */
static void audit_content(const char *when) {
    ssize_t len = KIND == K_QUEUE ? m_queue_len(Q) : KIND == K_STACK ? m_stack_len(S) : m_list_len(L);
    if (len != n) sx_fail("CT.len", "CT.len", "length %zd, monitor %d (%s)", len, n, when);
    nvis = 0; vis_mode = 0;
    if (n > 0) {
        int rc = KIND == K_QUEUE ? m_queue_iterate(Q, iter_cb, NULL) : KIND == K_STACK ? m_stack_iterate(S, iter_cb, NULL) : m_list_iterate(L, iter_cb, NULL);
        if (rc) sx_fail("CT.iter", "CT.iter|rc", "iterate returned %d", rc);
    }
    if (nvis != n) sx_fail("CT.order", "CT.order|count", "container yields %d elements, monitor has %d (%s)", nvis, n, when);
    for (int i = 0; i < n; i++) if (vis[i] != arr[i]) sx_fail("CT.order", "CT.order|seq", "position %d holds e%d, monitor expects e%d (%s)", i, vis[i], arr[i], when);
}

static void h_reset(void) {
    memhook._malloc = lg_malloc; memhook._calloc = lg_calloc; memhook._free = lg_free;
    nE = 0; n = 0; it_live = 0; it_pos = 0; it_removed = 0; it_nrm = it_nins = it_first = 0;
    memset(dcount, 0, sizeof dcount); memset(expect_d, 0, sizeof expect_d); memset(replaced, 0, sizeof replaced);
    Q = NULL; S = NULL; L = NULL; QI = NULL; SI = NULL; LI = NULL;
    if (KIND == K_QUEUE) Q = m_queue_new(DTOR ? dtor_cb : NULL);
    else if (KIND == K_STACK) S = m_stack_new(DTOR ? dtor_cb : NULL);
    else L = m_list_new(CMP == 2 ? cmp_key_cb : CMP ? cmp_cb : NULL, DTOR ? dtor_cb : NULL);
    if (!Q && !S && !L) sx_fail("CT.new", "CT.new", "constructor returned NULL");
}
static void h_cleanup(void) { lg_reset(); }

static elem_t *fresh(int cls) { if (nE >= MAXE) sx_fail("INTERNAL", "INTERNAL", "element pool exhausted"); E[nE].id = nE; E[nE].cls = cls; E[nE].probe = 100 + nE; return &E[nE++]; }
static void arr_ins(int pos, int id) { for (int i = n; i > pos; i--) arr[i] = arr[i - 1]; arr[pos] = id; n++; }
static int arr_del(int pos) { int id = arr[pos]; for (int i = pos; i < n - 1; i++) arr[i] = arr[i + 1]; n--; return id; }
static void *itr_ptr(void) { return KIND == K_QUEUE ? (void *)QI : KIND == K_STACK ? (void *)SI : (void *)LI; }
static int first_match_key(int cls) { for (int i = 0; i < n; i++) if (E[arr[i]].cls == cls) return i; return -1; }

static void list_insert_observe(elem_t *e) {
    /* insertion position is unspecified: observe it, require old sequence + e somewhere */
    nvis = 0; vis_mode = 0; m_list_iterate(L, iter_cb, NULL);
    if (nvis != n + 1) sx_fail("CT.order", "CT.order|count", "after insert the list yields %d elements, expected %d", nvis, n + 1);
    int pos = -1; for (int i = 0; i < nvis; i++) if (vis[i] == e->id) { pos = i; break; }
    if (pos < 0) sx_fail("CT.order", "CT.order|lost", "inserted element not in the list");
    arr_ins(pos, e->id);
    sx_obs(pos);
}

static void h_apply(op_t op) {
    int rc; void *r;
    switch (op.c) {
    case O_INS: {
        elem_t *e = fresh(op.a);
        if (KIND == K_QUEUE) { rc = m_queue_enqueue(Q, e); arr_ins(n, e->id); }
        else if (KIND == K_STACK) { rc = m_stack_push(S, e); arr_ins(0, e->id); }
        else { rc = m_list_insert(L, e); if (rc == 0) list_insert_observe(e); }
        if (rc) sx_fail("CT.ins", "CT.ins|rc", "insertion returned %d", rc);
        break; }
    case O_TAKE: {
        r = KIND == K_QUEUE ? m_queue_dequeue(Q) : m_stack_pop(S);
        if (n == 0) { if (r) sx_fail("CT.take", "CT.take|empty", "take on empty container returned non-NULL"); break; }
        int id = arr_del(0);
        if (r != &E[id]) sx_fail(KIND == K_QUEUE ? "CT.fifo" : "CT.lifo", KIND == K_QUEUE ? "CT.fifo" : "CT.lifo", "take returned %s, monitor expects e%d", r ? "another element" : "NULL", id);
        sx_obs(id); break; }
    case O_PEEK: {
        r = KIND == K_QUEUE ? m_queue_peek(Q) : m_stack_peek(S);
        if (n == 0 ? r != NULL : r != &E[arr[0]]) sx_fail("CT.peek", "CT.peek", "peek returned the wrong element");
        break; }
    case O_RM: {
        rc = KIND == K_QUEUE ? m_queue_remove(Q) : m_stack_remove(S);
        if (n == 0) { if (rc >= 0) sx_fail("CT.rm", "CT.rm|empty", "remove on empty container returned %d", rc); break; }
        if (rc) sx_fail("CT.rm", "CT.rm|rc", "remove returned %d", rc);
        expect_d[arr_del(0)]++; break; }
    case O_LEN: break;   /* audited below */
    case O_CLEAR: {
        rc = KIND == K_QUEUE ? m_queue_clear(Q) : KIND == K_STACK ? m_stack_clear(S) : m_list_clear(L);
        if (n > 0 && rc) sx_fail("CT.clear", "CT.clear|rc", "clear returned %d", rc);
        while (n) expect_d[arr_del(0)]++;
        break; }
    case O_ITERATE: {
        nvis = 0; vis_mode = op.a;
        rc = KIND == K_QUEUE ? m_queue_iterate(Q, iter_cb, NULL) : KIND == K_STACK ? m_stack_iterate(S, iter_cb, NULL) : m_list_iterate(L, iter_cb, NULL);
        int want = (op.a && n >= 2) ? 2 : n;
        if (n > 0 && nvis != want) sx_fail("CT.iter", "CT.iter|count", "iterate visited %d elements, expected %d", nvis, want);
        for (int i = 0; i < nvis && i < n; i++) if (vis[i] != arr[i]) sx_fail("CT.iter", "CT.iter|order", "iterate visit %d was e%d, expected e%d", i, vis[i], arr[i]);
        vis_mode = 0; break; }
    case O_ITR_NEW: {
        if (KIND == K_QUEUE) QI = m_queue_itr_new(Q); else if (KIND == K_STACK) SI = m_stack_itr_new(S); else LI = m_list_itr_new(L);
        if (n == 0) { if (itr_ptr()) sx_fail("CT.itr", "CT.itr|new-empty", "iterator on empty container"); break; }
        if (!itr_ptr()) sx_fail("CT.itr", "CT.itr|new-null", "itr_new returned NULL on a non-empty container");
        it_live = 1; it_pos = 0; it_removed = 0; it_nrm = it_nins = it_first = 0;
        break; }
    case O_ITR_NEXT: {
        rc = KIND == K_QUEUE ? m_queue_itr_next(&QI) : KIND == K_STACK ? m_stack_itr_next(&SI) : m_list_itr_next(&LI);
        if (rc) sx_fail("CT.itr", "CT.itr|next-rc", "itr_next returned %d", rc);
        int stay;
        if (KIND != K_LIST) stay = it_removed;
        else stay = (it_nrm > 0 && it_nins == 0);          /* only removals since last next: the element now current was not visited yet */
        if (KIND == K_LIST && it_nins == 1 && it_nrm == 1 && it_first == 2) stay = 0;   /* remove, insert: cursor on the inserted element -> advance */
        if (!stay && it_pos < n) it_pos++;
        it_removed = 0; it_nrm = it_nins = it_first = 0;
        if (it_pos >= n) { if (itr_ptr()) sx_fail("CT.itr", "CT.itr|no-end", "iterator still alive past the last element"); it_live = 0; }
        else if (!itr_ptr()) sx_fail("CT.itr", "CT.itr|early-end", "iterator ended with %d elements unvisited", n - it_pos);
        break; }
    case O_ITR_GET: {
        r = KIND == K_QUEUE ? m_queue_itr_get_data(QI) : KIND == K_STACK ? m_stack_itr_get_data(SI) : m_list_itr_get_data(LI);
        int none = (KIND != K_LIST && it_removed) || it_pos >= n;
        if (none ? r != NULL : r != &E[arr[it_pos]]) sx_fail("CT.itr", "CT.itr|get", "itr_get returned %s, monitor cursor is at position %d", r ? "a wrong element" : "NULL", it_pos);
        break; }
    case O_ITR_SET: {
        elem_t *e = fresh(op.a);
        rc = KIND == K_QUEUE ? m_queue_itr_set_data(QI, e) : KIND == K_STACK ? m_stack_itr_set_data(SI, e) : m_list_itr_set_data(LI, e);
        int none = (KIND != K_LIST && it_removed) || it_pos >= n;
        if (none) { if (rc >= 0) sx_fail("CT.itr", "CT.itr|set-none", "itr_set without a current element returned %d", rc); break; }
        if (rc) sx_fail("CT.itr", "CT.itr|set-rc", "itr_set returned %d", rc);
        replaced[arr[it_pos]] = 1; arr[it_pos] = e->id;
        break; }
    case O_ITR_RM: {
        rc = KIND == K_QUEUE ? m_queue_itr_remove(QI) : KIND == K_STACK ? m_stack_itr_remove(SI) : m_list_itr_remove(LI);
        int none = (KIND != K_LIST && it_removed) || it_pos >= n;
        if (none) { if (rc >= 0) sx_fail("CT.itr", "CT.itr|rm-none", "itr_remove without a current element returned %d", rc); break; }
        if (rc) sx_fail("CT.itr", "CT.itr|rm-rc", "itr_remove returned %d", rc);
        expect_d[arr_del(it_pos)]++;
        it_removed = 1; it_nrm++; if (!it_first) it_first = 2;
        break; }
    case O_ITR_INS: {
        elem_t *e = fresh(op.a);
        rc = m_list_itr_insert(LI, e);
        if (rc) sx_fail("CT.itr", "CT.itr|ins-rc", "itr_insert returned %d", rc);
        arr_ins(it_pos, e->id); it_nins++; if (!it_first) it_first = 1;
        break; }
    case O_ITR_DROP: {
        lg_free(itr_ptr()); QI = NULL; SI = NULL; LI = NULL; it_live = 0; break; }
    case O_RMPTR: case O_RMKEY: case O_RMABSENT: {
        void *key = op.c == O_RMPTR ? (void *)&E[arr[op.a]] : op.c == O_RMKEY ? (void *)&KEY[op.a] : (void *)&ABSENT;
        int pos = -1;
        if (op.c == O_RMPTR) { pos = op.a; if (CMP == 1) { int f = first_match_key(E[arr[op.a]].cls); if (f >= 0 && f < pos) pos = f; } }
        else if (op.c == O_RMKEY) pos = first_match_key(op.a);
        rc = m_list_remove(L, key);
        if (pos < 0) { if (rc >= 0) sx_fail("CT.rm", "CT.rm|absent", "remove of an absent element returned %d", rc); break; }
        if (rc) sx_fail("CT.rm", "CT.rm|rc", "remove returned %d", rc);
        expect_d[arr_del(pos)]++;
        break; }
    case O_FINDPTR: case O_FINDKEY: case O_FINDABSENT: {
        void *key = op.c == O_FINDPTR ? (void *)&E[arr[op.a]] : op.c == O_FINDKEY ? (void *)&KEY[op.a] : (void *)&ABSENT;
        int pos = -1;
        if (op.c == O_FINDPTR) { pos = op.a; if (CMP == 1) { int f = first_match_key(E[arr[op.a]].cls); if (f >= 0 && f < pos) pos = f; } }
        else if (op.c == O_FINDKEY) pos = first_match_key(op.a);
        r = m_list_find(L, key);
        if (pos < 0 ? r != NULL : r != &E[arr[pos]]) sx_fail("CT.find", "CT.find", "find returned %s, expected %s", r ? "an element" : "NULL", pos < 0 ? "NULL" : "the first match");
        break; }
    }
    if (lg_err) sx_fail("LG.mem", "LG.mem|bad-free", "double or foreign free of %p", lg_err_ptr);
    audit_dtor("after op");
    audit_content("after op");
}

static int h_enabled(op_t *o, int max) {
    int k = 0; (void)max;
    if (it_live) {
        /* with a live iterator only iterator operations and read-only calls are generated (external mutation invalidates iterators) */
        o[k++] = (op_t){O_ITR_NEXT}; o[k++] = (op_t){O_ITR_GET};
        int cur = !((KIND != K_LIST && it_removed) || it_pos >= n);
        if (KIND != K_LIST) {
            o[k++] = (op_t){O_ITR_RM};                      /* also generated without a current element: must be refused */
            o[k++] = (op_t){O_ITR_SET, 0};
        } else {
            /* list: between two next calls: only removals | only insertions | insert,remove | remove,insert (other mixes are unspecified) */
            int edits = it_nrm + it_nins;
            if (edits == 0 || (it_nins == 0) || (it_nins == 1 && it_nrm == 0 && it_first == 1)) { if (cur || edits == 0) o[k++] = (op_t){O_ITR_RM}; }
            if (n < MAXN + 1 && (edits == 0 || it_nrm == 0 || (it_nrm == 1 && it_nins == 0))) o[k++] = (op_t){O_ITR_INS, 0};
            if (cur) o[k++] = (op_t){O_ITR_SET, CMP ? 1 : 0};
        }
        o[k++] = (op_t){O_ITR_DROP};
        if (KIND != K_LIST) o[k++] = (op_t){O_PEEK};
        return k;
    }
    if (n < MAXN) { o[k++] = (op_t){O_INS, 0}; if (KIND == K_LIST && CMP) o[k++] = (op_t){O_INS, 1}; }
    if (KIND != K_LIST) { o[k++] = (op_t){O_TAKE}; o[k++] = (op_t){O_PEEK}; o[k++] = (op_t){O_RM}; }
    else {
        for (int i = 0; i < n; i++) { o[k++] = (op_t){O_RMPTR, i}; o[k++] = (op_t){O_FINDPTR, i}; }
        if (CMP) for (int c = 0; c < 2; c++) { o[k++] = (op_t){O_RMKEY, c}; o[k++] = (op_t){O_FINDKEY, c}; }
        if (n > 0) { o[k++] = (op_t){O_RMABSENT}; }
        o[k++] = (op_t){O_FINDABSENT};
    }
    o[k++] = (op_t){O_CLEAR};
    if (n > 0) { o[k++] = (op_t){O_ITERATE, 0}; if (n >= 2) { o[k++] = (op_t){O_ITERATE, 1}; o[k++] = (op_t){O_ITERATE, 2}; } }
    o[k++] = (op_t){O_ITR_NEW};
    return k;
}

static void h_canon(char *b, size_t cap) {
    int p = snprintf(b, cap, "n%d:", n);
    for (int i = 0; i < n; i++) p += snprintf(b + p, cap - p, "%d", E[arr[i]].cls);
    p += snprintf(b + p, cap - p, "|it%d:%d:%d:%d:%d:%d", it_live, it_pos, it_removed, it_nrm, it_nins, it_first);
    int rep = 0; for (int i = 0; i < n; i++) rep |= replaced[arr[i]] << i;
    snprintf(b + p, cap - p, "|r%d", rep);
}

static void end_iterator(void) { if (it_live) h_apply((op_t){O_ITR_DROP}); }
static void final_free(void) {
    int rc = KIND == K_QUEUE ? m_queue_free(&Q) : KIND == K_STACK ? m_stack_free(&S) : m_list_free(&L);
    if (rc) sx_fail("CT.free", "CT.free|rc", "free returned %d", rc);
    if (Q || S || L) sx_fail("CT.free", "CT.free|ptr", "free did not clear the handle");
    while (n) expect_d[arr_del(0)]++;
    audit_dtor("after free");
    for (int i = 0; i < nE; i++) replaced[i] = 0;
    if (lg_err) sx_fail("LG.mem", "LG.mem|bad-free", "double or foreign free of %p", lg_err_ptr);
    if (lg_live) sx_fail("LG.mem", "LG.mem|leak", "%d blocks outstanding after free", lg_live);
}
/* probes: 0 = free now; 1 = sentinel then drain through the public API, then free; 2 = clear, reuse, free; 3 = full iterator pass removing everything */
static void h_probe(int which) {
    if (which == 4) {       /* continue the live iteration to its end: every remaining element exactly once, in order */
        if (!it_live) return;
        int guard = 0;
        while (it_live && guard++ < 40) { h_apply((op_t){O_ITR_GET}); h_apply((op_t){O_ITR_NEXT}); }
        if (it_live) sx_fail("CT.itr", "CT.itr|endless", "iterator still alive after %d steps over %d elements", guard, n);
        final_free(); return;
    }
    end_iterator();
    if (which == 0) { final_free(); return; }
    if (which == 1) {
        h_apply((op_t){O_INS, 0});
        if (KIND == K_LIST) { while (n) h_apply((op_t){O_RMPTR, n - 1}); }
        else { while (n) h_apply((op_t){O_TAKE}); h_apply((op_t){O_TAKE}); }
        h_apply((op_t){O_INS, 0});
        final_free(); return;
    }
    if (which == 2) {
        h_apply((op_t){O_CLEAR}); h_apply((op_t){O_INS, 0}); h_apply((op_t){O_INS, 0});
        if (KIND != K_LIST) h_apply((op_t){O_TAKE}); else h_apply((op_t){O_RMPTR, 0});
        final_free(); return;
    }
    if (which == 3) {
        h_apply((op_t){O_ITR_NEW});
        int guard = 0;
        while (it_live && guard++ < 40) { h_apply((op_t){O_ITR_GET}); h_apply((op_t){O_ITR_RM}); h_apply((op_t){O_ITR_NEXT}); }
        if (n) sx_fail("CT.itr", "CT.itr|pass", "%d elements left after an iterator pass that removes every element", n);
        h_apply((op_t){O_INS, 0}); h_apply((op_t){O_INS, 0});
        if (KIND != K_LIST) { h_apply((op_t){O_TAKE}); h_apply((op_t){O_TAKE}); }
        final_free(); return;
    }
}

static void h_fmt(op_t op, char *b, size_t cap) {
    static const char *nm[] = { "insert", "take", "peek", "remove", "len", "clear", "iterate", "itr_new", "itr_next", "itr_get", "itr_set", "itr_remove", "itr_insert", "itr_drop",
                                "remove_ptr_at", "remove_key", "remove_absent", "find_ptr_at", "find_key", "find_absent" };
    static const char *qn[] = { "enqueue", "dequeue" }, *sn[] = { "push", "pop" };
    const char *name = nm[op.c];
    if (op.c <= O_TAKE && KIND == K_QUEUE) name = qn[op.c];
    if (op.c <= O_TAKE && KIND == K_STACK) name = sn[op.c];
    snprintf(b, cap, "%s(%d)", name, op.a);
}
static void h_config(int argc, char **argv) {
    for (int i = 1; i < argc - 1; i++) {
        if (!strcmp(argv[i], "--kind")) KIND = !strcmp(argv[i + 1], "queue") ? K_QUEUE : !strcmp(argv[i + 1], "stack") ? K_STACK : K_LIST;
        if (!strcmp(argv[i], "--dtor")) DTOR = atoi(argv[i + 1]);
        if (!strcmp(argv[i], "--cmp")) CMP = atoi(argv[i + 1]);
        if (!strcmp(argv[i], "--maxn")) MAXN = atoi(argv[i + 1]);
    }
    snprintf(cfgbuf, sizeof cfgbuf, "%s dtor=%d cmp=%d maxn=%d", KIND == K_QUEUE ? "queue" : KIND == K_STACK ? "stack" : "list", DTOR, CMP, MAXN);
}
static const char *h_cfg(void) { return cfgbuf; }

int main(int argc, char **argv) {
    static const sx_harness H = { "c12_cont", h_config, h_reset, h_enabled, h_apply, h_canon, 5, h_probe, h_cleanup, h_fmt, h_cfg, NULL };
    return sx_main(argc, argv, &H);
}
