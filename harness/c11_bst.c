/* C11 — ordered set (BST): set semantics, sorted iteration, right destructor target.
 * Real m_bst_* against a sorted-set monitor.  The dedup key contains the observed pre-order (= tree shape),
 * so every insertion order that yields a different tree is explored separately.
 * Config: --cmp user|default --dtor 0|1 --nkeys N */
#define LG_CAP 1024
#include "../engine/ledger.h"
#include "../engine/seqx.h"
#include <module/structs/itr.h>

typedef struct { void *(*_malloc)(size_t); void *(*_calloc)(size_t, size_t); void (*_free)(void *); } m_memhook_t;
extern m_memhook_t memhook;

static int USERCMP = 1, DTOR = 1, NK = 6;
static char cfgbuf[96];
enum { O_INS, O_RM, O_FIND, O_LEN, O_TRAV, O_ITR_NEW, O_ITR_NEXT, O_ITR_GET, O_ITR_RM, O_ITR_DROP, O_CLEAR, O_RMEMPTY };

#define MAXK 8
typedef struct { int key, ident; } cell_t;
static cell_t C[MAXK][2], K[MAXK];            /* stored identities, and look-up keys that are never stored */
/* default comparator: pointer-valued elements, never dereferenced; chosen so that differences overflow int */
static const uintptr_t PV[MAXK] = { 0x1000, 0x5555555555555000ul, 0x90000000ul, 0xAAAAAAAAAAAAA000ul, 0x7fff00000000ul, 0x100002000ul, 0x80001000ul, 0x100001000ul };      /* also values a third of the address space apart: their differences overflow intptr_t */
static int pv_rank[MAXK];                      /* rank of PV[i] in ascending order */

#define CBEG ((cell_t *)C)
#define CEND ((cell_t *)C + MAXK * 2)
static void *elem_ptr(int key, int ident) { return USERCMP ? (void *)&C[key][ident] : (void *)PV[key]; }
static void *key_ptr(int key) { return USERCMP ? (void *)&K[key] : (void *)PV[key]; }
static int ord(int key) { return USERCMP ? key : pv_rank[key]; }       /* position in comparator order */
static int key_of(void *p) {
    if (USERCMP) { cell_t *c = p; if (c >= CBEG && c < CEND) return c->key; return -1; }
    for (int i = 0; i < MAXK; i++) if ((uintptr_t)p == PV[i]) return i; return -1;
}
static int ident_of(void *p) { return USERCMP ? ((cell_t *)p)->ident : 0; }

/* model */
static int present[MAXK];          /* identity stored for key, or -1 */
static int cnt;
static int it_live, it_last, it_removed;      /* it_last: key of the current (or just removed) element */
static int dcalls[MAXK][2], dexpect[MAXK][2];
/* real */
static m_bst_t *T; static m_bst_itr_t *IT;

static void dtor_cb(void *p) {
    int k = key_of(p);
    if (k < 0 || (USERCMP && ((cell_t *)p < CBEG || (cell_t *)p >= CEND))) sx_fail("BST.dtor", "BST.dtor|foreign", "destructor called with something that was never stored (a look-up key?)");
    dcalls[k][ident_of(p)]++; sx_obs(700 + k * 2 + ident_of(p));
}
static int cmp_cb(void *a, void *b) { return ((cell_t *)a)->key - ((cell_t *)b)->key; }

static int seq[3][16], nseq[3], seq_stop;
static int trav_which;
static int trav_cb(void *up, void *data) {
    int w = (int)(intptr_t)up, k = key_of(data);
    if (k < 0) sx_fail("BST.trav", "BST.trav|foreign", "traversal yielded an unknown element");
    if (data != elem_ptr(k, present[k] < 0 ? 0 : present[k])) sx_fail("BST.trav", "BST.trav|ident", "traversal yielded a different object than the one stored for key %d", k);
    if (nseq[w] < 16) seq[w][nseq[w]++] = k;
    return 0;
}
/* rebuild the unique BST having this pre-order; emit its post-order */
static int rb_pos;
static void rb_post(const int *pre, int npre, int lo, int hi, int *out, int *nout) {
    if (rb_pos >= npre) return;
    int k = pre[rb_pos], o = ord(k);
    if (o < lo || o > hi) return;
    rb_pos++;
    rb_post(pre, npre, lo, o - 1, out, nout);
    rb_post(pre, npre, o + 1, hi, out, nout);
    out[(*nout)++] = k;
}
static void audit(const char *when) {
    ssize_t len = m_bst_len(T);
    if (len != cnt) sx_fail("BST.len", "BST.len", "len %zd, monitor %d (%s)", len, cnt, when);
    for (int w = 0; w < 3; w++) { nseq[w] = 0; int rc = m_bst_traverse(T, w == 0 ? M_BST_PRE : w == 1 ? M_BST_POST : M_BST_IN, trav_cb, (void *)(intptr_t)w);
        if (rc) sx_fail("BST.trav", "BST.trav|rc", "traverse returned %d", rc);
        if (nseq[w] != cnt) sx_fail("BST.trav", "BST.trav|count", "%s traversal yields %d elements, monitor has %d (%s)", w == 0 ? "pre-order" : w == 1 ? "post-order" : "in-order", nseq[w], cnt, when); }
    {   /* m_bst_iterate: every element exactly once (the same walk as the pre-order traversal) */
        int save[16], nsave = nseq[0]; memcpy(save, seq[0], sizeof(int) * (nsave < 16 ? nsave : 16)); nseq[0] = 0;
        int rc = m_bst_iterate(T, trav_cb, (void *)(intptr_t)0);
        if (rc) sx_fail("BST.trav", "BST.trav|rc", "m_bst_iterate returned %d", rc);
        if (nseq[0] != cnt) sx_fail("BST.trav", "BST.trav|count", "m_bst_iterate yields %d elements, monitor has %d (%s)", nseq[0], cnt, when);
        for (int i = 0; i < cnt && i < 16; i++) if (seq[0][i] != save[i]) sx_fail("BST.trav", "BST.trav|iterate", "m_bst_iterate and the pre-order traversal disagree at position %d (%s)", i, when);
    }
    for (int i = 0; i < cnt; i++) {
        if (present[seq[2][i]] < 0) sx_fail("BST.set", "BST.set|ghost", "in-order traversal yields key %d which is not in the set (%s)", seq[2][i], when);
        if (i && ord(seq[2][i - 1]) >= ord(seq[2][i])) sx_fail("BST.order", "BST.order|inorder", "in-order traversal not strictly ascending at position %d (%s)", i, when);
    }
    int post[16], npost = 0; rb_pos = 0; rb_post(seq[0], cnt, -1, 100, post, &npost);
    if (npost != cnt) sx_fail("BST.order", "BST.order|preorder", "pre-order sequence is not the pre-order of any binary search tree (%s)", when);
    for (int i = 0; i < cnt; i++) if (post[i] != seq[1][i]) sx_fail("BST.order", "BST.order|postorder", "post-order inconsistent with the tree given by the pre-order (%s)", when);
    for (int k = 0; k < MAXK; k++) for (int j = 0; j < 2; j++) {
        if (!DTOR && dcalls[k][j]) sx_fail("BST.dtor", "BST.dtor|nodtor", "destructor ran although none configured");
        if (DTOR && dcalls[k][j] != dexpect[k][j]) sx_fail("BST.dtor", dcalls[k][j] > dexpect[k][j] ? "BST.dtor|extra" : "BST.dtor|missing",
            "element key=%d#%d: destructor ran %d times, expected %d (%s)", k, j, dcalls[k][j], dexpect[k][j], when);
    }
    /* find agrees with the monitor for every key */
    for (int k = 0; k < NK; k++) {
        void *r = m_bst_find(T, key_ptr(k));
        if (present[k] < 0 ? r != NULL : r != elem_ptr(k, present[k])) sx_fail("BST.find", "BST.find", "find(key %d) returned %s (%s)", k, r ? "a wrong element" : "NULL", when);
    }
    if (lg_err) sx_fail("LG.mem", "LG.mem|bad-free", "double or foreign free");
}

static void h_reset(void) {
    memhook._malloc = lg_malloc; memhook._calloc = lg_calloc; memhook._free = lg_free;
    for (int k = 0; k < MAXK; k++) { present[k] = -1; for (int j = 0; j < 2; j++) { C[k][j] = (cell_t){k, j}; dcalls[k][j] = dexpect[k][j] = 0; } K[k] = (cell_t){k, 9}; }
    cnt = 0; it_live = 0; it_last = -1; it_removed = 0; IT = NULL; nseq[0] = nseq[1] = nseq[2] = 0;
    T = m_bst_new(USERCMP ? cmp_cb : NULL, DTOR ? dtor_cb : NULL);
    if (!T) sx_fail("BST.new", "BST.new", "m_bst_new returned NULL");
}
static void h_cleanup(void) { lg_reset(); }

static int next_key_after(int last) {        /* smallest present key greater (in comparator order) than last; -1 if none */
    int best = -1;
    for (int k = 0; k < MAXK; k++) if (present[k] >= 0 && (last < 0 || ord(k) > ord(last)) && (best < 0 || ord(k) < ord(best))) best = k;
    return best;
}

static void h_apply(op_t op) {
    int rc; void *r;
    switch (op.c) {
    case O_INS:
        rc = m_bst_insert(T, elem_ptr(op.a, op.b));
        if (present[op.a] >= 0) { if (rc >= 0) sx_fail("BST.set", "BST.set|dup", "insert of an element equal to a present one returned %d", rc); }
        else { if (rc) sx_fail("BST.set", "BST.set|ins", "insert of a new element returned %d", rc); present[op.a] = op.b; cnt++; }
        break;
    case O_RM:
        rc = m_bst_remove(T, key_ptr(op.a));
        if (present[op.a] < 0) { if (rc >= 0) sx_fail("BST.set", "BST.set|rm-absent", "remove of an absent key returned %d", rc); }
        else { if (rc) sx_fail("BST.set", "BST.set|rm", "remove of a present key returned %d", rc); dexpect[op.a][present[op.a]]++; present[op.a] = -1; cnt--; }
        break;
    case O_FIND: case O_LEN: case O_TRAV: break;     /* covered by the audit after every op */
    case O_ITR_NEW:
        IT = m_bst_itr_new(T);
        if (cnt == 0) { if (IT) sx_fail("BST.itr", "BST.itr|new-empty", "iterator on an empty set"); break; }
        if (!IT) sx_fail("BST.itr", "BST.itr|new-null", "itr_new returned NULL on a non-empty set");
        it_live = 1; it_removed = 0; it_last = next_key_after(-1);
        break;
    case O_ITR_NEXT:
        rc = m_bst_itr_next(&IT);
        if (rc) sx_fail("BST.itr", "BST.itr|next-rc", "itr_next returned %d", rc);
        it_last = next_key_after(it_last); it_removed = 0;
        if (it_last < 0) { if (IT) sx_fail("BST.itr", "BST.itr|no-end", "iterator alive past the greatest element"); it_live = 0; }
        else if (!IT) sx_fail("BST.itr", "BST.itr|early-end", "iterator ended although key %d was not visited", it_last);
        break;
    case O_ITR_GET:
        r = m_bst_itr_get_data(IT);
        if (it_removed ? r != NULL : r != elem_ptr(it_last, present[it_last])) {
            int k = r ? key_of(r) : -1;
            sx_fail("BST.itr", "BST.itr|order", "iterator current element is key %d, monitor expects key %d (in-order successor)", k, it_removed ? -1 : it_last); }
        break;
    case O_ITR_RM:
        rc = m_bst_itr_remove(IT);
        if (it_removed) { if (rc >= 0) sx_fail("BST.itr", "BST.itr|rm-twice", "second itr_remove on the same position returned %d", rc); break; }
        if (rc) sx_fail("BST.itr", "BST.itr|rm-rc", "itr_remove returned %d", rc);
        dexpect[it_last][present[it_last]]++; present[it_last] = -1; cnt--; it_removed = 1;
        break;
    case O_ITR_DROP: lg_free(IT); IT = NULL; it_live = 0; break;
    case O_CLEAR:
        rc = m_bst_clear(T);
        if (cnt > 0 && rc) sx_fail("BST.clear", "BST.clear|rc", "clear returned %d", rc);
        for (int k = 0; k < MAXK; k++) if (present[k] >= 0) { dexpect[k][present[k]]++; present[k] = -1; }
        cnt = 0; break;
    }
    audit("after op");
}

static int h_enabled(op_t *o, int max) {
    int n = 0; (void)max;
    if (it_live) {
        o[n++] = (op_t){O_ITR_NEXT}; o[n++] = (op_t){O_ITR_GET}; o[n++] = (op_t){O_ITR_RM}; o[n++] = (op_t){O_ITR_DROP};
        return n;
    }
    for (int k = 0; k < NK; k++) {
        o[n++] = (op_t){O_INS, k, 0};
        if (USERCMP && present[k] == 0) o[n++] = (op_t){O_INS, k, 1};     /* an equal but distinct object */
        if (present[k] < 0 && USERCMP && k < 2) o[n++] = (op_t){O_INS, k, 1};
        o[n++] = (op_t){O_RM, k};
    }
    o[n++] = (op_t){O_ITR_NEW}; o[n++] = (op_t){O_CLEAR};
    return n;
}

static void h_canon(char *b, size_t cap) {
    /* shape = observed pre-order (public API), identities, iterator position */
    int p = snprintf(b, cap, "pre:");
    for (int i = 0; i < nseq[0]; i++) p += snprintf(b + p, cap - p, "%d.%d,", seq[0][i], present[seq[0][i]]);
    snprintf(b + p, cap - p, "|it%d:%d:%d", it_live, it_last, it_removed);
}

static void final_free(void) {
    int rc = m_bst_free(&T);
    if (rc || T) sx_fail("BST.free", "BST.free", "free returned %d / handle %s", rc, T ? "not cleared" : "cleared");
    for (int k = 0; k < MAXK; k++) if (present[k] >= 0) { dexpect[k][present[k]]++; present[k] = -1; }
    cnt = 0;
    for (int k = 0; k < MAXK; k++) for (int j = 0; j < 2; j++)
        if (DTOR ? dcalls[k][j] != dexpect[k][j] : dcalls[k][j]) sx_fail("BST.dtor", dcalls[k][j] > dexpect[k][j] ? "BST.dtor|extra" : "BST.dtor|missing", "after free: element key=%d#%d destroyed %d times, expected %d", k, j, dcalls[k][j], dexpect[k][j]);
    if (lg_err) sx_fail("LG.mem", "LG.mem|bad-free", "double or foreign free");
    if (lg_live) sx_fail("LG.mem", "LG.mem|leak", "%d blocks outstanding after free", lg_live);
}
static void h_probe(int which) {
    if (it_live) h_apply((op_t){O_ITR_DROP});
    switch (which) {
    case 0: final_free(); break;
    case 1: {   /* in-order iterator pass removing everything */
        h_apply((op_t){O_ITR_NEW}); int g = 0;
        while (it_live && g++ < 40) { h_apply((op_t){O_ITR_GET}); h_apply((op_t){O_ITR_RM}); h_apply((op_t){O_ITR_NEXT}); }
        if (cnt) sx_fail("BST.itr", "BST.itr|pass", "%d elements left after a remove-all iterator pass", cnt);
        h_apply((op_t){O_INS, 1, 0}); h_apply((op_t){O_INS, 0, 0}); final_free(); break; }
    case 2: {   /* iterator pass without removal, then remove by key in descending order */
        h_apply((op_t){O_ITR_NEW}); int g = 0, seen = 0, total = cnt;
        while (it_live && g++ < 40) { h_apply((op_t){O_ITR_GET}); seen++; h_apply((op_t){O_ITR_NEXT}); }
        if (seen != total) sx_fail("BST.itr", "BST.itr|count", "iterator visited %d of %d elements", seen, total);
        for (int o = MAXK - 1; o >= 0; o--) for (int k = 0; k < MAXK; k++) if (ord(k) == o && present[k] >= 0) h_apply((op_t){O_RM, k});
        final_free(); break; }
    case 3: h_apply((op_t){O_CLEAR}); h_apply((op_t){O_INS, 2, 0}); h_apply((op_t){O_INS, 1, 0}); h_apply((op_t){O_INS, 3, 0}); h_apply((op_t){O_RM, 2}); final_free(); break;
    }
}
static void h_fmt(op_t op, char *b, size_t cap) {
    static const char *nm[] = { "insert", "remove", "find", "len", "traverse", "itr_new", "itr_next", "itr_get", "itr_remove", "itr_drop", "clear" };
    if (op.c == O_INS) { if (USERCMP) snprintf(b, cap, "insert(key%d#%d)", op.a, op.b); else snprintf(b, cap, "insert(%#lx)", (unsigned long)PV[op.a]); }
    else if (op.c == O_RM) { if (USERCMP) snprintf(b, cap, "remove(key%d)", op.a); else snprintf(b, cap, "remove(%#lx)", (unsigned long)PV[op.a]); }
    else snprintf(b, cap, "%s", nm[op.c]);
}
static void h_config(int argc, char **argv) {
    for (int i = 1; i < argc - 1; i++) {
        if (!strcmp(argv[i], "--cmp")) USERCMP = !strcmp(argv[i + 1], "user");
        if (!strcmp(argv[i], "--dtor")) DTOR = atoi(argv[i + 1]);
        if (!strcmp(argv[i], "--nkeys")) NK = atoi(argv[i + 1]);
    }
    if (NK > MAXK) NK = MAXK;
    for (int i = 0; i < MAXK; i++) { pv_rank[i] = 0; for (int j = 0; j < MAXK; j++) if (PV[j] < PV[i]) pv_rank[i]++; }
    snprintf(cfgbuf, sizeof cfgbuf, "cmp=%s dtor=%d nkeys=%d", USERCMP ? "user" : "default(pointer)", DTOR, NK);
}
static const char *h_cfg(void) { return cfgbuf; }
int main(int argc, char **argv) {
    static const sx_harness H = { "c11_bst", h_config, h_reset, h_enabled, h_apply, h_canon, 4, h_probe, h_cleanup, h_fmt, h_cfg, NULL };
    return sx_main(argc, argv, &H);
}
