/* C06 — thread pool under every schedule (schedx).  Real Lib/thpool/thpool.c, real threads, modelled pthread objects.
 * Config: --threads T --tasks N --flags <1 LAZY | 2 DETACHED> --wait 0|1 --submitters 0|2 --nested 0|1 --probe <mask> --failcreate N */
#define _GNU_SOURCE
#include "schedx.h"
#include <stdio.h>
#include <stdlib.h>
#include <string.h>
#include <pthread.h>
#include <errno.h>
#include <stdatomic.h>
#include <module/thpool/thpool.h>

const char *hx_name = "c06_thpool";
static int NTHR = 2, NTASK = 2, FLAGS = 0, WAIT = 1, SUBM = 0, NESTED = 0, PROBE = 0, FAILCREATE = 0;
/* PROBE (bit mask): 1 task 0 calls m_thpool_length from its body, 2 task 0 calls m_thpool_clear, 4 the main thread calls m_thpool_length after its submissions, 8 ... m_thpool_clear */
static atomic_int maybe_cleared[8];        /* accepted and not started when a successful m_thpool_clear was called: may legitimately never run */
static atomic_int create_failed;            /* the injected pthread_create failure has been consumed */
static char cfg[160];

#define MAXTASK 8
typedef struct { int idx; } targ_t;
static targ_t ARG[MAXTASK];
static m_thpool_t *pool;
static atomic_int started[MAXTASK], finished[MAXTASK];
static atomic_int accepted[MAXTASK], add_rc[MAXTASK];
static atomic_int running;
static atomic_int free_returned; static int free_rc;
static int started_at_free[MAXTASK], finished_at_free[MAXTASK];
static atomic_long start_stamp[MAXTASK], finish_stamp[MAXTASK]; static long free_stamp;
static int nested_idx = -1;
static int racy_counter;      /* unsynchronised on purpose only in --selftest-race builds */

static void probe_len(const char *who) {
    int pending = 0; for (int i = 0; i < MAXTASK; i++) if (accepted[i] && !started[i]) pending++;
    for (int i = 0; i < MAXTASK; i++) if (add_rc[i] == -999) pending++;      /* a submission in progress on another thread */
    ssize_t l = m_thpool_length(pool);
    sch_obs_thread(300 + (l < 0 ? 9 : (int)l));
    if (l > pending) sch_fail("TP.len", "TP.len|over", "m_thpool_length (%s) = %zd, but only %d accepted tasks had not started", who, l, pending);
    if (l < 0 && l != -EPERM) sch_fail("TP.len", "TP.len|rc", "m_thpool_length (%s) returned %zd", who, l);
}
static void probe_clear(const char *who) {
    int cand[2 * MAXTASK], nc = 0; for (int i = 0; i < MAXTASK; i++) if ((accepted[i] || add_rc[i] == -999) && !started[i]) cand[nc++] = i;
    ssize_t r = m_thpool_clear(pool);
    sch_obs_thread(320 + (r < 0 ? 9 : (int)r));
    (void)who;      /* a negative answer (shutting down; nothing queued: -EINVAL from the queue) is not pinned down by the statement: accepted, nothing may then have been removed */
    /* the call takes effect when it holds the pool lock, not when it was made: what was submitted meanwhile may be removed as well */
    for (int i = 0; i < MAXTASK; i++) if ((accepted[i] || add_rc[i] == -999) && !started[i]) cand[nc++] = i;
    if (r >= 0) for (int k = 0; k < nc; k++) maybe_cleared[cand[k]] = 1;
}
static void *task(void *p) {
    targ_t *a = p;
    if (a < ARG || a >= ARG + MAXTASK || a->idx != (int)(a - ARG)) sch_fail("TP.arg", "TP.arg", "task ran with an argument that was never submitted");
    int i = a->idx;
    if (!accepted[i] && add_rc[i] != -999) sch_fail("TP.ghost", "TP.ghost", "task %d ran although its submission was refused (rc=%d)", i, add_rc[i]);
    if (atomic_fetch_add(&started[i], 1) != 0) sch_fail("TP.once", "TP.once", "task %d started twice", i);
    int r = atomic_fetch_add(&running, 1) + 1;
    if (r > NTHR) sch_fail("TP.width", "TP.width", "%d task bodies run concurrently on a pool of %d threads", r, NTHR);
    if (free_returned) sch_fail("TP.after-free", "TP.after-free|start", "task %d started after m_thpool_free returned", i);
    start_stamp[i] = sch_clock();
    sch_obs_thread(100 + i);
#ifdef SELFTEST_RACE
    racy_counter++;
#endif
    sch_yield();                                  /* the body spans other threads' steps */
    if (i == 0 && (PROBE & 1)) probe_len("from a task");
    if (i == 0 && (PROBE & 2)) probe_clear("from a task");
    if (NESTED && i == 0 && nested_idx > 0) {     /* a running task submits a task to its own pool (legal even during shutdown) */
        add_rc[nested_idx] = -999;
        int rc = m_thpool_add(pool, task, &ARG[nested_idx]);
        add_rc[nested_idx] = rc; accepted[nested_idx] = rc == 0;
        sch_obs_thread(rc == 0 ? 7 : 8);
        sch_yield();
    }
    finish_stamp[i] = sch_clock();
    atomic_fetch_sub(&running, 1);
    atomic_store(&finished[i], 1);
    if (free_returned) sch_fail("TP.after-free", "TP.after-free|finish", "task %d was still running when m_thpool_free returned (finished afterwards)", i);
    return NULL;
}

static void submit(int i) {
    add_rc[i] = -999;
    int rc = m_thpool_add(pool, task, &ARG[i]);
    add_rc[i] = rc; accepted[i] = rc == 0;
    sch_obs_thread(200 + i * 2 + (rc == 0));
    if (rc != 0 && FAILCREATE && !create_failed) { create_failed = 1; return; }      /* the one injected pthread_create failure may surface as a refused submission (LAZY pools) */
    if (rc != 0) sch_fail("TP.add", "TP.add|refused", "m_thpool_add of task %d returned %d on a pool that is not shutting down", i, rc);
}
static void *submitter(void *p) {
    int which = (int)(intptr_t)p;
    for (int i = which; i < NTASK; i += 2) submit(i);
    return NULL;
}

void hx_main(void) {
    for (int i = 0; i < MAXTASK; i++) ARG[i].idx = i;
    sch_create_fail_nth = FAILCREATE;
    pool = m_thpool_new(NTHR, FLAGS);
    if (!pool && FAILCREATE && !(FLAGS & 1) && FAILCREATE <= NTHR) { free_returned = 1; return; }      /* eager pool whose n-th worker could not be created: no pool, and no worker may touch it any more */
    if (!pool) sch_fail("TP.new", "TP.new", "m_thpool_new returned NULL");
    if (NESTED) nested_idx = NTASK;               /* extra task index used by the nested submission */
    if (SUBM) {
        pthread_t th[2];
        for (int s = 0; s < 2; s++) pthread_create(&th[s], NULL, submitter, (void *)(intptr_t)s);
        for (int s = 0; s < 2; s++) pthread_join(th[s], NULL);
    } else {
        for (int i = 0; i < NTASK; i++) submit(i);
    }
    if (PROBE & 4) probe_len("from the submitting thread");
    if (PROBE & 8) probe_clear("from the submitting thread");
    free_rc = m_thpool_free(&pool, WAIT);
    free_stamp = sch_clock();
    int total = NTASK + (NESTED ? 1 : 0);
    for (int i = 0; i < total; i++) { started_at_free[i] = atomic_load(&started[i]); finished_at_free[i] = atomic_load(&finished[i]); }
    free_returned = 1;
    if (free_rc) sch_fail("TP.free", "TP.free|rc", "m_thpool_free returned %d", free_rc);
    if (pool) sch_fail("TP.free", "TP.free|ptr", "m_thpool_free did not clear the handle");
    for (int i = 0; i < total; i++) {
        if (started_at_free[i] && !finished_at_free[i]) sch_fail("TP.free-early", "TP.free-early|running", "m_thpool_free(wait_all=%d) returned while task %d was still running", WAIT, i);
        if (WAIT && accepted[i] && !finished_at_free[i] && !maybe_cleared[i]) sch_fail("TP.free-early", "TP.free-early|pending", "m_thpool_free(wait_all=true) returned although accepted task %d had not run", i);
    }
}

void hx_final(void) {
    int total = NTASK + (NESTED ? 1 : 0);
    uint64_t o = 0;
    for (int i = 0; i < total; i++) {
        int s = atomic_load(&started[i]), f = atomic_load(&finished[i]);
        if (s > 1) sch_fail("TP.once", "TP.once", "task %d started %d times", i, s);
        if (s != f) sch_fail("TP.run", "TP.run|unfinished", "task %d started but never finished", i);
        if (s && !started_at_free[i]) sch_fail("TP.after-free", "TP.after-free|late", "task %d (not started when free returned) ran afterwards", i);
        if (WAIT && accepted[i] && !s && !maybe_cleared[i]) sch_fail("TP.lost", "TP.lost", "accepted task %d never ran although the pool was freed with wait_all", i);
        if (s && !accepted[i]) sch_fail("TP.ghost", "TP.ghost", "task %d ran although its submission was refused", i);
        o = o * 7 + s * 3 + accepted[i];
    }
    /* order in which tasks started (observable outcome diversity) */
    for (int i = 0; i < total; i++) for (int j = 0; j < total; j++) if (start_stamp[i] && start_stamp[j] && start_stamp[i] < start_stamp[j]) o = o * 3 + 1; else o = o * 3;
    sch_obs(o);
}

void hx_config(int argc, char **argv) {
    for (int i = 1; i < argc - 1; i++) {
        if (!strcmp(argv[i], "--threads")) NTHR = atoi(argv[i + 1]);
        if (!strcmp(argv[i], "--tasks")) NTASK = atoi(argv[i + 1]);
        if (!strcmp(argv[i], "--flags")) FLAGS = atoi(argv[i + 1]);
        if (!strcmp(argv[i], "--wait")) WAIT = atoi(argv[i + 1]);
        if (!strcmp(argv[i], "--submitters")) SUBM = atoi(argv[i + 1]);
        if (!strcmp(argv[i], "--nested")) NESTED = atoi(argv[i + 1]);
        if (!strcmp(argv[i], "--probe")) PROBE = atoi(argv[i + 1]);
        if (!strcmp(argv[i], "--failcreate")) FAILCREATE = atoi(argv[i + 1]);
    }
    if (NTASK > MAXTASK - 1) NTASK = MAXTASK - 1;
    snprintf(cfg, sizeof cfg, "threads=%d tasks=%d flags=%s%s%s wait_all=%d submitters=%d nested=%d probe=%d failcreate=%d", NTHR, NTASK,
             FLAGS & 1 ? "LAZY" : "", (FLAGS & 3) == 3 ? "|" : "", FLAGS & 2 ? "DETACHED" : ((FLAGS & 1) ? "" : "eager"), WAIT, SUBM, NESTED, PROBE, FAILCREATE);
}
const char *hx_config_str(void) { return cfg; }
int main(int argc, char **argv) { return sch_main(argc, argv); }
