/* core world: one context, up to 3 modules with scripted callbacks, driven by operation histories.
 * Fork-per-execution worker for the explicit-state search run by engine/worldx.py (see world_base.h for the protocol).
 *   world --prop C01 --worker            (requests on stdin)
 *   world --prop C01 --replay <hex> [--probe N] [--verbose]
 */
#include "world_enum.h"
#include <time.h>
#include <sys/stat.h>
#include <sys/prctl.h>

int m_set_memhook(void *(*)(size_t), void *(*)(size_t, size_t), void (*)(void *));

#define RL_BASE (R_ST | R_CB | R_CT | R_CX | R_LP)
static const profile_t PROFILES[] = {
    /* prop   nmods groups                                                                     rules                               maxdev prelude evals refuse flagset acts armcbs pats topics */
    { "C01", 2, G_LIFE | G_REG | G_MSG | G_PILL | G_ARM | G_ILLEGAL | G_QUIT,               RL_BASE | R_EV | R_PILL,            1, "01000100", 7, 1, 1,
      (1u << A_STOP) | (1u << A_DEREG) | (1u << A_PAUSE) | (1u << A_QUIT) | (1u << A_TELL) | (1u << A_START), 0xf, 0, 0 },
    { "C02", 2, G_LIFE | G_MSG | G_SUB | G_BCAST | G_AUTOFREE | G_QUIT | G_FAULT,           RL_BASE | R_PS | R_FREE,            1, "01000100" "07000100" "07010100" "04000000", 1, 0, 1,
      0, 0, (1u << P_T) | (1u << P_RT) | (1u << P_DOT), (1u << T_T) | (1u << T_TX) | (1u << T_U) },
    { "C02O", 1, G_SUB | G_QUIT | G_AUTOFREE,                                                  RL_BASE | R_PS | R_FREE,            0, "01000100" "07000100" "07010100" "04000000", 1, 0, 1,
      0, 0, (1u << P_T) | (1u << P_DOT), (1u << T_T), 0, 0, 0, 1 },
    { "C02D", 1, G_SUB | G_QUIT | G_SUBDUP,                                                    RL_BASE | R_PS | R_FREE,            0, "01000100" "07000100" "07010100" "04000000", 1, 0, 1,
      0, 0, (1u << P_T) | (1u << P_DOT), (1u << T_T), 0, 0, 0, 0 },
    { "C07", 2, G_CTX | G_REG | G_LIFE | G_REFS | G_ILLEGAL | G_CTXCALL | G_QUIT | G_ARM,  RL_BASE | R_EV,                     1, "", 1, 0, 1 | 2 | 4 | 0x80,
      (1u << A_DEREG) | (1u << A_CTXCALL), (1u << CB_START) | (1u << CB_STOP) | (1u << CB_EVT), 0, 0 },
    { "C07D", 2, G_CTX | G_REG | G_LIFE | G_CTXCALL | G_ARM | G_QUIT,                        RL_BASE | R_EV | R_NM,              1, "", 1, 0, 1 | 8,
      (1u << A_CTXCALL), (1u << CB_START) | (1u << CB_STOP) | (1u << CB_EVT), 0, 0 },
    { "C07O", 1, G_CTX | G_REG | G_LIFE | G_REFS | G_CTXCALL | G_QUIT,                       RL_BASE | R_EV,                     0, "", 1, 0, 1 | 0x80,
      0, 0, 0, 0, 0, 0, 0, 2 },
    { "C08", 2, G_LIFE | G_MSG | G_SUB | G_PRIO | G_BCAST | G_PILL | G_QUIT | G_BATCH,               RL_BASE | R_PS | R_FIFO | R_PILL,   0, "01000100" "07000100" "07010100" "04000000", 1, 0, 1,
      0, 0, (1u << P_T) | (1u << P_MOD_STOPPED), (1u << T_T) },
    { "C15", 2, G_REG | G_LIFE | G_MSG | G_SUB | G_PILL | G_ARM | G_ILLEGAL | G_QUIT,       RL_BASE | R_PS | R_NM,              1, "01000100", 1, 0, 0xff,
      (1u << A_CTXCALL) | (1u << A_PUB) | (1u << A_SUB) | (1u << A_TELL), 0xf, (1u << P_T), (1u << T_T) | (1u << T_MOD_STARTED) | (1u << T_CTX_TICK) },
    { "C16", 2, G_MSG | G_STASH | G_ARM | G_LIFE | G_BECOME | G_SUB | G_PRIO | G_SRC | G_READY, RL_BASE | R_PS | R_SH | R_HD,     3, "01000100" "07000100" "07010100" "04000000", 1, 0, 1,
      (1u << A_STASH) | (1u << A_UNSTASH), (1u << CB_EVT), (1u << P_T), (1u << T_T), (1u << K_FD), 1 },
    { "C17", 2, G_MSG | G_BECOME | G_ARM | G_LIFE | G_STASH,                                 RL_BASE | R_PS | R_HD | R_SH,       2, "01000100" "07000100" "07010100" "04000000", 1, 0, 1,
      (1u << A_BECOME) | (1u << A_UNBECOME) | (1u << A_STASH) | (1u << A_STOP), (1u << CB_EVT), 0, 0 },
    { "C19", 2, G_REG | G_LIFE | G_SUB | G_QUIT | G_TICK | G_ENV | G_PILL | G_ARM,           RL_BASE | R_PS | R_SY | R_EV,       1, "01000100", 1 | 4, 1, 1,
      (1u << A_DEREG) | (1u << A_STOP) | (1u << A_PAUSE), (1u << CB_START) | (1u << CB_STOP) | (1u << CB_EVT), (1u << P_CTX_STARTED) | (1u << P_CTX_STOPPED) | (1u << P_CTX_TICK) | (1u << P_MOD_STARTED) | (1u << P_MOD_STOPPED), 0 },
    { "C19T", 1, G_SUB | G_QUIT | G_TICK | G_ENV,                                            RL_BASE | R_PS | R_SY | R_EV,       0, "01000100" "07000100" "07010100" "04000000", 1, 0, 1,
      0, 0, (1u << P_CTX_TICK), 0, 0, 0, 0, 8 },
    { "C09", 1, G_SRC | G_LIFE | G_ILLEGAL | G_BADPARAM,                                      RL_BASE | R_SR,                     0, "01000100" "07000100", 1, 0, 1,
      0, 0, 0, 0, 0x7f, 1 | 0x100, 0, 4 },
    { "C09T", 1, G_SRC | G_LIFE | G_ILLEGAL | G_BUCKET | G_BATCH,                             RL_BASE | R_SR | R_TB,              0, "01000100" "07000100", 1, 0, 1,
      0, 0, 0, 0, (1u << K_TMR), 1, 2 },
    { "C09S", 1, G_SUB | G_LIFE | G_ILLEGAL | G_SUBDUP,                                       RL_BASE | R_SR,                     0, "01000100" "07000100", 1, 0, 1,
      0, 0, (1u << P_T) | (1u << P_U) | (1u << P_RT), 0, 0, 0, 0, 1 },
    { "C09X", 1, G_SRC | G_SUB | G_LIFE | G_ILLEGAL | G_BADPARAM | G_SUBDUP,                  RL_BASE | R_SR,                     0, "01000100" "07000100", 1, 0, 1,
      0, 0, (1u << P_T) | (1u << P_U) | (1u << P_RT), 0, 0x7f, 1 | 0x100, 0, 4 },
    { "C03", 2, G_SRC | G_READY | G_ENV | G_MSG | G_LIFE | G_QUIT | G_ARM | G_EPOLLFAULT | G_SUB, RL_BASE | R_PS | R_SR | R_LP | R_EV,  1, "01000100" "07000100" "07010100" "04000000", 1, 0, 1,
      (1u << A_ERRNO) | (1u << A_STOP) | (1u << A_PAUSE) | (1u << A_QUIT), (1u << CB_EVT), (1u << P_T), (1u << T_T), (1u << K_FD) | (1u << K_TMR), 1 | 4, 0, 16 },
    { "C03E", 2, G_SRC | G_ENVX | G_LIFE | G_QUIT | G_MSG,                                     RL_BASE | R_PS | R_SR | R_LP | R_EV, 0, "01000100" "07000100" "07010100" "04000000", 1, 0, 1,
      0, 0, 0, 0, (1u << K_SGN) | (1u << K_PATH) | (1u << K_PID), 1 | 4, 2 },
    { "C13", 1, G_MSG | G_SUB | G_PRIO | G_BATCH | G_ENV | G_LIFE | G_SRC | G_READY | G_TFAULT,         RL_BASE | R_PS | R_FIFO | R_BA,     0, "01000100" "07000100" "07010100" "04000000", 1, 0, 1,
      0, 0, (1u << P_T) | (1u << P_U), (1u << T_T) | (1u << T_U), (1u << K_FD), 1 },
    { "C13B", 1, G_MSG | G_SUB | G_PRIO | G_BATCH | G_ENV | G_BUCKET | G_TFAULT,                          RL_BASE | R_PS | R_FIFO | R_BA | R_TB, 0, "01000100" "07000100" "07010100" "04000000", 1, 0, 1,
      0, 0, (1u << P_T), (1u << T_T), 0, 0 },
    { "C18", 2, G_MSG | G_SUB | G_BUCKET | G_ENV | G_BECOME | G_PILL | G_SRC | G_TFAULT,               RL_BASE | R_PS | R_TB | R_SR,       0, "01000100" "07000100" "07010100" "04000000", 1, 0, 1,
      0, 0, (1u << P_T), (1u << T_T), (1u << K_TMR), 1 },
    { "C15N", 2, G_LIFE | G_ARM | G_QUIT,                                                    RL_BASE | R_NM,                     2, "01000100" "07000103" "07010100", 1, 0, 1,
      (1u << A_CTXCALL) | (1u << A_START) | (1u << A_STOP) | (1u << A_DEREG), 0xf, 0, 0 },
    { "C20", 2, G_SRC | G_READY | G_ENV | G_LIFE | G_PILL | G_ARM | G_REFS | G_REG | G_REREG,         RL_BASE | R_SR | R_FD,              1, "01000100" "07000100" "07010100" "04000000", 1, 1, 1,
      (1u << A_DEREG) | (1u << A_RETAIN) | (1u << A_STOP) | (1u << A_SRCDEREG), (1u << CB_EVT) | (1u << CB_START), 0, 0, (1u << K_FD) | (1u << K_TMR), 0x3f | 0x100 | 0x400, 2 },
    { "C20T", 1, G_LIFE | G_SUB | G_QUIT | G_TICK | G_ARM | G_MSG,                                RL_BASE | R_PS | R_SY | R_FD | R_EV, 1, "01000100" "07000100" "07010100", 1, 0, 1,
      (1u << A_TICK) | (1u << A_STOP), (1u << CB_EVT) | (1u << CB_STOP) | (1u << CB_START), (1u << P_CTX_STOPPED) | (1u << P_CTX_TICK), 0 },
    { "C04", 2, G_LIFE | G_REG | G_MSG | G_SUB | G_BCAST | G_AUTOFREE | G_PILL | G_ARM | G_QUIT | G_STASH | G_BECOME | G_SRC | G_READY | G_ENV | G_REFS | G_FAULT | G_BATCH,
      RL_BASE | R_PS | R_FREE | R_SH | R_HD | R_SR | R_PILL | R_EV, 2, "01000100" "07000100" "07010100" "04000000", 1, 1, 1,
      (1u << A_STOP) | (1u << A_DEREG) | (1u << A_PAUSE) | (1u << A_UNSUB) | (1u << A_TELL) | (1u << A_PUB) | (1u << A_STASH) | (1u << A_UNSTASH) | (1u << A_RETAIN) | (1u << A_QUIT),
      0xf, (1u << P_T) | (1u << P_DOT), (1u << T_T), (1u << K_FD) | (1u << K_TMR), 0x7 },
    { "C04F", 2, G_MSG | G_PILL | G_ARM | G_QUIT | G_LIFE,                      RL_BASE | R_PS | R_FREE | R_PILL | R_EV, 1, "01000100" "07000100" "07010100" "04000000", 1, 0, 1,
      (1u << A_DEREG) | (1u << A_STOP), (1u << CB_EVT), 0, 0 },
    /* the same on a NON persistent context: the last module deregistering itself (also from a handler run by the final flush) releases the context */
    { "C04N", 2, G_MSG | G_PILL | G_ARM | G_QUIT | G_LIFE,                      RL_BASE | R_PS | R_FREE | R_PILL | R_EV, 1, "01000000" "07000100" "07010100" "04000000", 1, 0, 1,
      (1u << A_DEREG) | (1u << A_STOP), (1u << CB_EVT), 0, 0 },
    { "SMOKE", 2, G_LIFE | G_REG | G_MSG | G_QUIT,                                          RL_BASE | R_EV | R_PS,              0, "01000100", 1, 0, 1, 0, 0, 0, 0 },
};
#define NPROFILES ((int)(sizeof PROFILES / sizeof *PROFILES))

static void world_reset(void) {
    lg_reset(); shim_reset(); model_reset();
    memset(MT, 0, sizeof MT); npost = 0; tick_owed = 0; flush_phase = 0; unstash_slot = -1; ncur = 0; memset(msg_busy, 0, sizeof msg_busy);
    teardown_busy = 0; memset(dereg_busy, 0, sizeof dereg_busy);
    memset(exp_start, 0, sizeof exp_start); memset(exp_stop_run, 0, sizeof exp_stop_run); memset(exp_stop_other, 0, sizeof exp_stop_other); memset(opt_stop, 0, sizeof opt_stop); memset(eval_ok, 0, sizeof eval_ok);
    m_set_memhook(lg_malloc, lg_calloc, lg_free);
    for (int i = 0; i < NUFD; i++) { int p[2]; if (__real_pipe(p)) { perror("pipe"); _exit(3); } fcntl(p[0], F_SETFL, O_NONBLOCK); UFD[i].rd = p[0]; UFD[i].wr = p[1]; UFD[i].open_rd = 1; UFD[i].bytes = 0; UFD[i].hung = UFD[i].hung_seen = 0; }
}

static void free_hook(void *p) {
    for (int i = 0; i < nmsg; i++) if (MSG[i].used && MSG[i].autofree && MSG[i].payload == p) {
        if (MSG[i].freed++) vfail("PS.free", "PS.free|twice", "auto-free payload of message #%d released twice", i);
        /* a held (batched / low priority) message is discarded when a pill sent after it stops the module: the library releases it before on_stop is seen */
        for (int t = 0; t < NM; t++) { mod_t *m = &MD[t]; if (!m->present || m->st != S_RUNNING) continue;
            int held = m->ever_batched || holds_low(t);
            if (!held) continue;
            int pill = -1; for (int k = 0; k < m->nmb; k++) if (m->mb[k].kind == 0 && MSG[m->mb[k].msg].topic == T_PILL) { pill = k; break; }
            for (int k = 0; k < pill; k++) if (m->mb[k].kind == 0 && m->mb[k].msg == i && !m->mb[k].optional) { m->mb[k].optional = 1; MSG[i].owed--; }
        }
        if (ON(R_FREE) && (MSG[i].owed - MSG[i].may_vanish > 0 || msg_busy[i] > 0) && !(MSG[i].rc_neg && MSG[i].delivered == 0))
            vfail("PS.free", "PS.free|early", "auto-free payload of message #%d released while %d recipient(s) still have to receive it%s", i, MSG[i].owed, msg_busy[i] ? " / a handler is using it" : "");
        return;
    }
    for (int i = 0; i < nmsg; i++) if (MSG[i].used && !MSG[i].autofree && MSG[i].payload == p) vfail("PS.free", "PS.free|not-autofree", "library released the payload of message #%d which was sent without the auto-free flag", i);
}

static void apply_top(op_t op) {
    last_refused = 0;
    char b[160]; if (verbose) { fmt_op(op, b, sizeof b); fprintf(stderr, "  op: %s\n", b); }
    do_api(op);
    audit("after op");
}

/* one execution inside the (long-lived) executor process: replay the history after the profile's prelude, then
 *   mode -1: report canonical state + enabled ops, THEN run the teardown probe in the same execution
 *   mode  p: run probe suffix p
 * A violation ends the executor (vfail -> V line, _exit).  The executor is only reused after an execution that
 * ended with both ledgers clean (no outstanding allocation, no library descriptor), which is exactly the condition
 * under which the library holds no residual state; every reported violation is re-confirmed in a fresh process. */
static void env_cleanup(void) {
    sigset_t ss; sigemptyset(&ss); for (int i = 0; i < 3; i++) sigaddset(&ss, ENV_SIGS[i]);
    struct timespec z = { 0, 0 }; while (sigtimedwait(&ss, NULL, &z) > 0) { }
    for (int k = 0; k < 2; k++) {
        for (int i = 0; i < touch_ctr[k]; i++) { char f[96]; snprintf(f, sizeof f, "%s/f%d", PATHS[k], i); unlink(f); }
        touch_ctr[k] = 0;
        if (child_dead[k]) { waitpid(CHILD[k], NULL, 0); CHILD[k] = fork(); if (CHILD[k] == 0) { prctl(PR_SET_PDEATHSIG, SIGKILL); for (;;) pause(); } child_dead[k] = 0; }
    }
}
static void world_cleanup(void) {
    if (P.groups & G_ENVX) env_cleanup();
    for (int i = 0; i < NUFD; i++) { if (UFD[i].open_rd && UFD[i].rd >= 0) __real_close(UFD[i].rd); if (UFD[i].wr >= 0) __real_close(UFD[i].wr); UFD[i].rd = UFD[i].wr = -1; }
    lg_free_hook = NULL;
}
static void exec_one(const hist_t *h, int probe) {
    cur_hist = *h; cur_probe = probe; obs_hash = 0x1234;
    world_reset();
    lg_free_hook = free_hook;
    hist_t pre; parse_hex(P.prelude && *P.prelude ? P.prelude : "-", &pre);
    for (int i = 0; i < pre.n; i++) apply_top(pre.ops[i]);
    for (int i = 0; i < h->n; i++) apply_top(h->ops[i]);
    static char key[6000], line[9000], hx[8 * MAXH + 2], en[8 * 600 + 2];
    if (probe >= 0) { run_probe(probe); snprintf(line, sizeof line, "OK\n"); }
    else {
        canon(key, sizeof key);
        if (verbose) fprintf(stderr, "  state: %s\n", key);
        uint64_t a = 0xcbf29ce484222325ull, c = 0x9E3779B97F4A7C15ull;
        for (char *q = key; *q; q++) { a = (a ^ (uint8_t)*q) * 0x100000001B3ull; c = (c + (uint8_t)*q) * 0xff51afd7ed558ccdull; c ^= c >> 32; }
        static op_t ops[600]; int n = enabled_ops(ops, 600);
        en[0] = '-'; en[1] = 0;
        for (int i = 0; i < n; i++) sprintf(en + 8 * i, "%02x%02x%02x%02x", ops[i].c, ops[i].a, ops[i].b, ops[i].d);
        hist_hex(h, hx);
        snprintf(line, sizeof line, "R %s %016llx%016llx %016llx %d %d %s\n", hx, (unsigned long long)a, (unsigned long long)c, (unsigned long long)obs_hash, ndev_of(h), last_refused, en);
        cur_probe = NPROBES - 1; run_probe(NPROBES - 1);          /* teardown probe, same execution */
    }
    world_cleanup();
    if (lg_live || shim_open_lib_fds()) vfail("INTERNAL", "INTERNAL|unclean", "execution ended without a violation but not clean");
    { static int base_fds = -1; int n = 0; for (int fd = 0; fd < 256; fd++) if (fcntl(fd, F_GETFD) != -1) n++;       /* the executor itself must not accumulate descriptors */
      if (base_fds < 0) base_fds = n; else if (n != base_fds) vfail("INTERNAL", "INTERNAL|fd-drift", "executor has %d open descriptors, %d after its first execution", n, base_fds); }
    write_all(res_fd, line);
}

/* executor process management (worker side) */
static pid_t ex_pid; static int ex_in = -1, ex_out = -1;
static void executor_loop(int in, int out) {
    res_fd = out; static char req[1200]; FILE *f = fdopen(in, "r");
    while (fgets(req, sizeof req, f)) {
        char hx[8 * MAXH + 32]; int probe;
        if (sscanf(req, "%390s %d", hx, &probe) != 2) continue;
        hist_t h; if (parse_hex(hx, &h)) continue;
        alarm(20); exec_one(&h, probe); alarm(0);
    }
    _exit(0);
}
static void executor_start(void) {
    int a[2], b[2]; if (__real_pipe(a) || __real_pipe(b)) { perror("pipe"); exit(3); }
    fflush(NULL);
    ex_pid = fork();
    if (ex_pid == 0) { __real_close(a[1]); __real_close(b[0]); executor_loop(a[0], b[1]); }
    __real_close(a[0]); __real_close(b[1]); ex_in = a[1]; ex_out = b[0];
}
/* run one execution; forwards its result line to stdout (R lines only when probe < 0); returns 0 ok / 1 violation-or-crash */
static int run_child(const hist_t *h, int probe) {
    static char req[1200], hx[8 * MAXH + 2], buf[20000];
    if (ex_pid <= 0) executor_start();
    hist_hex(h, hx); snprintf(req, sizeof req, "%s %d\n", hx, probe);
    write_all(ex_in, req);
    size_t n = 0; ssize_t r;
    while (n < sizeof buf - 1 && (r = __real_read(ex_out, buf + n, 1)) == 1) { if (buf[n++] == '\n') break; }
    buf[n] = 0;
    if (n > 0 && buf[n - 1] == '\n' && buf[0] != 'V') { if (probe < 0) fputs(buf, stdout); return 0; }
    /* violation (executor exits after reporting) or crash: reap it */
    int st = 0; __real_close(ex_in); __real_close(ex_out); waitpid(ex_pid, &st, 0); ex_pid = 0; ex_in = ex_out = -1;
    if (n > 0 && buf[0] == 'V') { fputs(buf, stdout); return 1; }
    cur_hist = *h; cur_probe = probe; res_fd = 1;
    int code = WIFEXITED(st) ? WEXITSTATUS(st) : -WTERMSIG(st);
    char d[200], sg[64];
    if (code == -SIGALRM) { snprintf(sg, sizeof sg, "CR.hang"); snprintf(d, sizeof d, "execution did not finish within 20 s"); }
    else if (code == 96) { snprintf(sg, sizeof sg, "LP.blocked"); snprintf(d, sizeof d, "the loop would block forever"); }
    else { const char *w = code == 97 ? "AddressSanitizer" : code == 98 ? "UBSan" : code == -SIGSEGV ? "SIGSEGV" : code == -SIGABRT ? "abort" : "abnormal-exit";
        snprintf(sg, sizeof sg, "CR.san|%s", w); snprintf(d, sizeof d, "%s (exit %d) while executing this history", w, code); }
    fflush(stdout); emit_viol(code == 96 ? "LP.blocked" : code == -SIGALRM ? "CR.hang" : "CR.san", sg, d);
    return 1;
}

static pid_t main_pid;
static void world_atexit(void) {
    if (getpid() != main_pid) return;
    for (int i = 0; i < 2; i++) if (CHILD[i] > 0) { kill(CHILD[i], SIGKILL); waitpid(CHILD[i], NULL, 0); }
    char base[48]; snprintf(base, sizeof base, "/tmp/vworld.%d", (int)getpid());
    for (int i = 0; i < 2; i++) rmdir(PATHS[i]);
    rmdir(base);
}
int main(int argc, char **argv) {
    BADFD = open("/proc/self/exe", O_RDONLY | O_CLOEXEC);
    main_pid = getpid();
    const char *replay = NULL, *fmt = NULL; int worker = 0, probe = -2;
    for (int i = 1; i < argc; i++) {
        if (!strcmp(argv[i], "--prop") && i + 1 < argc) PROP = argv[++i];
        else if (!strcmp(argv[i], "--replay") && i + 1 < argc) replay = argv[++i];
        else if (!strcmp(argv[i], "--probe") && i + 1 < argc) probe = atoi(argv[++i]);
        else if (!strcmp(argv[i], "--worker")) worker = 1;
        else if (!strcmp(argv[i], "--fmt") && i + 1 < argc) fmt = argv[++i];
        else if (!strcmp(argv[i], "--verbose")) verbose = 1;
        else if (!strcmp(argv[i], "--nmods") && i + 1 < argc) { i++; }
    }
    int found = 0;
    for (int i = 0; i < NPROFILES; i++) if (!strcmp(PROFILES[i].prop, PROP)) { P = PROFILES[i]; found = 1; }
    if (!found) { fprintf(stderr, "unknown profile %s\n", PROP); return 2; }
    for (int i = 1; i < argc - 1; i++) { if (!strcmp(argv[i], "--nmods")) P.nmods = atoi(argv[i + 1]); if (!strcmp(argv[i], "--maxdev")) P.maxdev = atoi(argv[i + 1]); if (!strcmp(argv[i], "--keylimit")) P.keylimit = atoi(argv[i + 1]); }
    /* the prelude follows the number of modules: A and B (and C) are registered by it when it registers any */
    static char prel[200];
    if (P.prelude && strstr(P.prelude, "07010100")) {
        const char *q = strstr(P.prelude, "07010100"); size_t off = q - P.prelude;
        snprintf(prel, sizeof prel, "%.*s%s%s%s", (int)off, P.prelude, P.nmods >= 2 ? "07010100" : "", P.nmods >= 3 ? "07020100" : "", q + 8);
        P.prelude = prel;
    }
    RULES = P.rules | R_FD; adv_drains = (P.groups & G_BATCH) != 0;
    snprintf(cfg_str, sizeof cfg_str, "world prop=%s modules=%d maxdev=%d%s", P.prop, P.nmods, P.maxdev, P.keylimit == 2 ? " keys/kind=2" : P.keylimit == 3 ? " keys/kind=3" : "");
    pick_names();
    model_reset();            /* computes the pattern/topic match table once, before any fork */
    if (P.kinds & ((1u << K_PATH) | (1u << K_PID) | (1u << K_SGN))) {
        { sigset_t ss; sigemptyset(&ss); for (int i = 0; i < 3; i++) sigaddset(&ss, ENV_SIGS[i]); sigprocmask(SIG_BLOCK, &ss, NULL); }      /* watched signals stay blocked in the executor, as the library leaves them */      /* real directories and real child processes as path / pid keys */
        char base[48]; snprintf(base, sizeof base, "/tmp/vworld.%d", (int)getpid()); mkdir(base, 0700);
        for (int i = 0; i < 2; i++) { snprintf(PATHS[i], sizeof PATHS[i], "%s/d%d", base, i); mkdir(PATHS[i], 0700); }
        for (int i = 0; i < 2; i++) { CHILD[i] = fork(); if (CHILD[i] == 0) { prctl(PR_SET_PDEATHSIG, SIGKILL); for (;;) pause(); } }
        atexit(world_atexit);
    }
    setvbuf(stdout, NULL, _IOLBF, 0);
    signal(SIGPIPE, SIG_IGN);
    if (fmt) {      /* print prelude + history as JSON list of readable ops */
        hist_t pre, h; parse_hex(P.prelude && *P.prelude ? P.prelude : "-", &pre); parse_hex(fmt, &h);
        printf("["); char b[160], js[400];
        for (int i = 0; i < pre.n; i++) { fmt_op(pre.ops[i], b, sizeof b); jstr(js, sizeof js, b); printf("%s%s", i ? "," : "", js); }
        if (pre.n) printf(",\"--\"");
        for (int i = 0; i < h.n; i++) { fmt_op(h.ops[i], b, sizeof b); jstr(js, sizeof js, b); printf(",%s", js); }
        printf("]\n"); return 0;
    }
    if (replay) {
        hist_t h; if (parse_hex(replay, &h)) { fprintf(stderr, "bad history\n"); return 2; }
        int bad = 0;
        if (probe >= -1) bad = run_child(&h, probe);
        else { bad = run_child(&h, -1); for (int p = 0; p < NPROBES - 1 && !bad; p++) bad = run_child(&h, p); }
        printf("REPLAY %s\n", bad ? "VIOLATION" : "ok");
        return bad;
    }
    if (worker) {
        static char line[70000], hx[8 * MAXH + 32], ops[65000];
        while (fgets(line, sizeof line, stdin)) {
            if (line[0] == 'Q') break;
            if (line[0] == 'E') {
                if (sscanf(line + 2, "%390s %64000s", hx, ops) != 2) continue;
                hist_t h; parse_hex(hx, &h);
                if (!strcmp(ops, "=")) { run_child(&h, -1); }     /* just evaluate this history */
                else for (size_t i = 0; i + 8 <= strlen(ops); i += 8) {
                    hist_t g = h; unsigned c, a, b, d; sscanf(ops + i, "%2x%2x%2x%2x", &c, &a, &b, &d);
                    if (g.n >= MAXH) continue;
                    g.ops[g.n++] = (op_t){c, a, b, d};
                    run_child(&g, -1);
                }
                printf("D\n");
            } else if (line[0] == 'P') {
                if (sscanf(line + 2, "%390s", hx) != 1) continue;
                hist_t h; parse_hex(hx, &h);
                for (int p = 0; p < NPROBES - 1; p++) if (run_child(&h, p)) break;
                printf("D\n");
            }
            fflush(stdout);
        }
        return 0;
    }
    fprintf(stderr, "usage: world --prop P (--worker | --replay HEX)\n");
    return 2;
}
