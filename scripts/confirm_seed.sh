#!/bin/bash
# confirm_seed.sh <PID>: scratch worktree /tmp/seed_<PID>, deliverables in /tmp/seed_<PID>_out.
# With patch.diff applied: the library builds, ModuleTest and ctest pass, the demo fails; without it: the demo passes.
# (no git stash: the stash is shared by all worktrees of a repository, so parallel runs would swap patches)
p=$1; W=/tmp/seed_$p; O=/tmp/seed_${p}_out
INC="-I$W/Lib/core/public -I$W/Lib/structs/public -I$W/Lib/mem/public -I$W/Lib/thpool/public"
LIBS="-L$W/_b -lmodule_core -lmodule_structs -lmodule_mem -lmodule_thpool -lpthread -Wl,-rpath,$W/_b"
cd $W && git checkout -q -- . && git apply $O/patch.diff || { echo "$p: patch does not apply"; exit 1; }
cmake --build $W/_b >/dev/null 2>&1 || { echo "$p: BUILD FAIL"; exit 1; }
(cd $W/_b/tests && ./ModuleTest >/dev/null 2>&1); t1=$?
ctest --test-dir $W/_b >/dev/null 2>&1; t2=$?
gcc -O1 -g $O/demo.c $INC $LIBS -o $O/demo_bin 2>/dev/null || gcc -O1 -g $O/demo.c $INC $LIBS -ldl -o $O/demo_bin
timeout 120 $O/demo_bin >/dev/null 2>&1; d_with=$?
git apply -R $O/patch.diff; cmake --build $W/_b >/dev/null 2>&1
timeout 120 $O/demo_bin >/dev/null 2>&1; d_without=$?
git apply $O/patch.diff; rm -f $O/demo_bin
echo "$p: tests_with_patch=$t1/$t2 demo_with_patch=$d_with demo_without=$d_without"
