#!/bin/bash
# Runs the repository's own test suite (103 cmocka cases, plain and under valgrind = 206)
# with the verification guard OFF, in a scratch build dir outside /repo and /verif.
# usage: baseline.sh [repo-dir] ; exit 0 iff both runs pass.
REPO=${1:-${VERIF_REPO:-/repo}}
B=$(mktemp -d /var/tmp/lm_baseline.XXXXXX)
trap 'rm -rf "$B"' EXIT
set -e
cmake -G Ninja -S "$REPO" -B "$B" -DBUILD_TESTS=ON -DCMAKE_BUILD_TYPE=RelWithDebInfo -DCMAKE_C_FLAGS=-Wno-error >"$B/cmake.log" 2>&1 || { cat "$B/cmake.log"; exit 2; }
cmake --build "$B" >"$B/build.log" 2>&1 || { tail -50 "$B/build.log"; exit 2; }
set +e
cd "$B/tests"
ctest --test-dir "$B" -j2 --timeout 900 --output-on-failure 2>&1 | tail -15
rc=${PIPESTATUS[0]}
# per-case summary from the plain run
./ModuleTest 2>&1 | grep -E "^\[  (PASSED|FAILED)" | head -5
exit $rc
