#!/bin/bash
# Applies every seeded change (seeded/<id>_mN/patch.diff) to /repo in turn, runs the quick check of its property, reverts.
# Expected: DETECTED for all but those whose meta.json says NOT DETECTED.
cd "$(dirname "$0")/.."
for d in seeded/*/; do
  id=$(basename $d | cut -d_ -f1)
  r=$(./scripts/try_seed.sh $d/patch.diff $id quick 2>&1 | grep "^== \|patch does not apply" | tail -1)
  exp=$(grep -q "NOT DETECTED" $d/meta.json && echo "(expected: not detected)" || echo "")
  echo "$(basename $d): $r $exp"
done
