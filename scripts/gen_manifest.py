#!/usr/bin/env python3
"""Regenerates /verif/MANIFEST.json from engine/checks.py (+ engine/manifest_meta.py)."""
import json, os, sys
ROOT = os.path.dirname(os.path.dirname(os.path.abspath(__file__)))
sys.path.insert(0, os.path.join(ROOT, 'engine'))
from checks import CHECKS
from manifest_meta import META, NOT_APPLICABLE, HOOK_COMMITS, NOTES

checks = []
for pid in sorted(CHECKS):
    if pid not in META:
        continue
    m = META[pid]
    checks.append(dict(
        property_id=pid,
        quick_cmd='./vcheck %s --tier quick' % pid,
        thorough_cmd='./vcheck %s --tier thorough' % pid,
        evidence_file='/verif/evidence/%s.json' % pid,
        replay_cmd_template='./vcheck replay {path}',
        engine=m['engine'],
        level_claimed=dict(category='model_checking', text=m['level_text'], design_ref=m['design_ref']),
        level_note=m['level_note'],
        technique=m['technique'],
    ))
man = dict(
    version=1,
    setup_cmd='./vcheck build',
    hooks=dict(guard='LIBMODULE_VERIF',
               enable='vcheck compiles $VERIF_REPO/Lib directly with gcc and -DLIBMODULE_VERIF (plus -DLIBMODULE_VERIF_MAP_SIZE=8 for the C05 tiny-table runs)',
               baseline_off_cmd='./scripts/baseline.sh',
               source_commits=HOOK_COMMITS, add_only=True),
    engines=[
        dict(name='seqx-inproc', path='engine/seqx.h', serves_properties=[p for p in sorted(CHECKS) if p in META and META[p]['engine'] == 'seqx-inproc'],
             kind_free_text='explicit-state BFS over operation histories replayed on fresh real objects, in-process, reference monitor on every step'),
        dict(name='seqx-world', path='engine/world', serves_properties=[p for p in sorted(CHECKS) if p in META and META[p]['engine'] == 'seqx-world'],
             kind_free_text='explicit-state BFS over API/callback/environment histories of the real core library, fork per execution, link-time shim (virtual clock, fd ledger), reference monitor'),
        dict(name='schedx', path='engine/schedx', serves_properties=[p for p in sorted(CHECKS) if p in META and META[p]['engine'] == 'schedx'],
             kind_free_text='serialising scheduler over wrapped pthread/syscall points, preemption-bounded exhaustive schedule enumeration of real threads, ASan/TSan per schedule'),
    ],
    checks=checks,
    notes=NOTES,
    not_applicable=[dict(property_id=p, reason=r) for p, r in sorted(NOT_APPLICABLE.items()) if not (p in CHECKS and p in META)],
)
json.dump(man, open(os.path.join(ROOT, 'MANIFEST.json'), 'w'), indent=1)
print('MANIFEST.json: %d checks, %d not_applicable' % (len(checks), len(man['not_applicable'])))
