#!/bin/bash
# usage: try_seed.sh <patch.diff> <check-id> [tier]
# Applies a seeded change to a scratch worktree of /repo (HEAD) outside /repo and /verif, runs the check against it
# (VERIF_REPO), removes the worktree. /repo itself is never modified. Evidence files are restored afterwards.
patch=$(readlink -f "$1"); id=$2; tier=${3:-quick}
cd "$(dirname "$0")/.."
W=$(mktemp -d /var/tmp/seedtree.XXXXXX); rmdir $W
git -C /repo worktree add -q --detach $W HEAD || exit 2
trap 'git -C /repo worktree remove --force $W >/dev/null 2>&1; git -C /repo worktree prune' EXIT
git -C $W apply "$patch" || { echo "patch does not apply"; exit 2; }
cp evidence/$id.json /var/tmp/ev_$id.json 2>/dev/null
out=$(VERIF_REPO=$W ./vcheck $id --tier $tier 2>&1); rc=$?
cp /var/tmp/ev_$id.json evidence/$id.json 2>/dev/null
echo "$out" | grep -E "VIOLATION|^  rule=|^  [A-Za-z]|INTERNAL|^$id $tier" | head -${LINES_MAX:-12}
if echo "$out" | grep -q "^VIOLATION property=$id"; then echo "== DETECTED ($id rc=$rc)"; else echo "== MISSED ($id rc=$rc)"; fi
