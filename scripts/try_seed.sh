#!/bin/bash
# usage: try_seed.sh <patch.diff> <check-id> [tier]   — applies a seeded change to /repo, runs the check, reverts.
# prints DETECTED / MISSED; never leaves /repo modified; evidence files are restored afterwards.
patch=$(readlink -f "$1"); id=$2; tier=${3:-quick}
cd "$(dirname "$0")/.."
git -C /repo diff --quiet || { echo "/repo has local changes"; exit 2; }
cp evidence/$id.json /var/tmp/ev_$id.json 2>/dev/null
git -C /repo apply "$patch" || { echo "patch does not apply"; exit 2; }
out=$(./vcheck $id --tier $tier 2>&1); rc=$?
git -C /repo checkout -- . 
cp /var/tmp/ev_$id.json evidence/$id.json 2>/dev/null
echo "$out" | grep -E "VIOLATION|^  rule=|^  [A-Za-z]|INTERNAL|^$id $tier" | head -${LINES_MAX:-12}
if echo "$out" | grep -q "^VIOLATION property=$id"; then echo "== DETECTED ($id rc=$rc)"; else echo "== MISSED ($id rc=$rc)"; fi
