#!/bin/bash
# runs every registered check of one tier, sequentially; prints a one-line summary per check
tier=${1:-quick}
cd "$(dirname "$0")/.."
for id in $(python3 -c "import json;print(' '.join(c['property_id'] for c in json.load(open('MANIFEST.json'))['checks']))"); do
  s=$(date +%s)
  out=$(./vcheck $id --tier $tier 2>&1); rc=$?
  echo "$id rc=$rc $(( $(date +%s) - s ))s :: $(echo "$out" | grep -E "^$id $tier:" | tail -1)"
  echo "$out" | grep -E "VIOLATION|INTERNAL|KNOWN-FINDING" | head -5
done
