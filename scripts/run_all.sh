#!/bin/bash
# runs every registered check of one tier, sequentially; prints a one-line summary per check
# usage: run_all.sh [quick|thorough] [ids...]
tier=${1:-quick}; shift
cd "$(dirname "$0")/.."
ids="$*"; [ -z "$ids" ] && ids=$(python3 -c "import json;print(' '.join(c['property_id'] for c in json.load(open('MANIFEST.json'))['checks']))")
for id in $ids; do
  s=$(date +%s)
  out=$(./vcheck $id --tier $tier 2>&1); rc=$?
  echo "$id rc=$rc $(( $(date +%s) - s ))s :: $(echo "$out" | grep -E "^$id $tier:" | tail -1)"
  echo "$out" | grep -E "VIOLATION|INTERNAL|KNOWN-FINDING" | head -5
done
