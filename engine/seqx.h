/* seqx (in-process flavour): explicit-state breadth-first exploration of operation histories
 * on REAL library objects, one fresh world per execution (history replayed from scratch),
 * reference monitor evaluated on every step, dedup on (canonical monitor state, last k ops),
 * probe suffixes on every new key, plus a stateless pass without dedup.
 *
 * A harness defines an sx_harness and calls sx_main().  The exploration itself runs in a forked
 * worker; the current history is mirrored into shared memory so that a crash / sanitizer abort is
 * attributed to the exact history in flight.
 *
 * Output protocol (stdout, one JSON object per line, consumed by vcheck):
 *   VIOL {...}   one per violating history (rule, sig, detail, history)
 *   STAT {...}   final coverage numbers
 */
#ifndef VERIF_SEQX_H
#define VERIF_SEQX_H
#define _GNU_SOURCE
#include <stdio.h>
#include <stdlib.h>
#include <string.h>
#include <stdint.h>
#include <stdarg.h>
#include <setjmp.h>
#include <signal.h>
#include <time.h>
#include <unistd.h>
#include <errno.h>
#include <sys/mman.h>
#include <sys/wait.h>

typedef struct { uint8_t c, a, b, d; } op_t;
#define SX_MAXH 40
typedef struct { uint8_t n; op_t ops[SX_MAXH]; } hist_t;

typedef struct {
    const char *name;                 /* harness name */
    void (*config)(int argc, char **argv);   /* parse harness-specific args (may be NULL) */
    void (*reset)(void);              /* fresh world: real object(s) + model */
    int  (*enabled)(op_t *out, int max);     /* ops enabled in the current model state */
    void (*apply)(op_t op);           /* run op on real + model, sx_fail() on mismatch */
    void (*canon)(char *buf, size_t cap);    /* canonical model state */
    int   nprobes;
    void (*probe)(int i);             /* probe suffix i on the current (replayed) world; sx_fail() on mismatch */
    void (*cleanup)(void);            /* silently drop the real objects (no checks) */
    void (*fmt_op)(op_t op, char *buf, size_t cap);
    const char *(*config_str)(void);  /* description of the configuration (flags etc.) */
    void (*extra)(void);              /* optional: extra enumerated histories run before the BFS (uses sx_run_extra) */
} sx_harness;

/* ---------- engine state ---------- */
static const sx_harness *SX;
static jmp_buf sx_jmp;
static int sx_failed;
static char sx_rule[64], sx_sig[200], sx_detail[600];
static uint64_t sx_obs_hash;
static struct { volatile int n; op_t ops[SX_MAXH]; volatile int phase; volatile int probe; } *sx_shm;  /* history in flight */
static int sx_kdepth = 1;            /* last-k ops in the dedup key */
static int sx_probe_all = 1;         /* run the probe suffixes after EVERY transition, not only on new keys: hidden damage can sit behind a merged key */
static long sx_execs, sx_trans, sx_states, sx_probe_runs, sx_viol, sx_stateless_runs;
static int sx_max_viol = 25;
static double sx_deadline;           /* absolute, seconds */
static int sx_quiet;

static double sx_now(void) { struct timespec t; clock_gettime(CLOCK_MONOTONIC, &t); return t.tv_sec + t.tv_nsec / 1e9; }

static void sx_obs(uint64_t v) { sx_obs_hash = (sx_obs_hash ^ v) * 0x100000001B3ull; sx_obs_hash ^= sx_obs_hash >> 29; }

__attribute__((format(printf, 3, 4), noreturn))
static void sx_fail(const char *rule, const char *sig, const char *fmt, ...) {
    va_list ap; va_start(ap, fmt);
    snprintf(sx_rule, sizeof sx_rule, "%s", rule);
    snprintf(sx_sig, sizeof sx_sig, "%s", sig);
    vsnprintf(sx_detail, sizeof sx_detail, fmt, ap);
    va_end(ap);
    sx_failed = 1;
    longjmp(sx_jmp, 1);
}

/* ---------- 128-bit key set ---------- */
typedef struct { uint64_t a, b; } sx_key;
static sx_key *sx_set; static size_t sx_set_cap, sx_set_n;
static sx_key *sx_oset; static size_t sx_oset_cap, sx_oset_n;   /* distinct observation logs */
static sx_key sx_hash(const char *s, size_t n, uint64_t seed) {
    uint64_t a = 0xcbf29ce484222325ull ^ seed, b = 0x9E3779B97F4A7C15ull + seed;
    for (size_t i = 0; i < n; i++) { a = (a ^ (uint8_t)s[i]) * 0x100000001B3ull; b = (b + (uint8_t)s[i]) * 0xff51afd7ed558ccdull; b ^= b >> 32; }
    if (!a && !b) a = 1;
    return (sx_key){a, b};
}
static int sx_set_add(sx_key **set, size_t *cap, size_t *n, sx_key k) {
    if (*n * 2 >= *cap) {
        size_t nc = *cap ? *cap * 2 : 1 << 16; sx_key *ns = calloc(nc, sizeof *ns);
        if (!ns) { fprintf(stderr, "oom key set\n"); exit(3); }
        for (size_t i = 0; i < *cap; i++) if ((*set)[i].a | (*set)[i].b) {
            size_t j = (*set)[i].a & (nc - 1); while (ns[j].a | ns[j].b) j = (j + 1) & (nc - 1); ns[j] = (*set)[i]; }
        free(*set); *set = ns; *cap = nc;
    }
    size_t j = k.a & (*cap - 1);
    while ((*set)[j].a | (*set)[j].b) { if ((*set)[j].a == k.a && (*set)[j].b == k.b) return 0; j = (j + 1) & (*cap - 1); }
    (*set)[j] = k; (*n)++; return 1;
}

/* ---------- json helpers ---------- */
static void sx_json_str(FILE *f, const char *s) {
    fputc('"', f);
    for (; *s; s++) { unsigned char c = *s; if (c == '"' || c == '\\') { fputc('\\', f); fputc(c, f); } else if (c < 0x20) fprintf(f, "\\u%04x", c); else fputc(c, f); }
    fputc('"', f);
}
static void sx_json_hist(FILE *f, const hist_t *h) {
    char b[128];
    fputc('[', f);
    for (int i = 0; i < h->n; i++) { SX->fmt_op(h->ops[i], b, sizeof b); if (i) fputc(',', f); sx_json_str(f, b); }
    fputc(']', f);
}
static void sx_hist_hex(const hist_t *h, char *out) {
    for (int i = 0; i < h->n; i++) sprintf(out + 8 * i, "%02x%02x%02x%02x", h->ops[i].c, h->ops[i].a, h->ops[i].b, h->ops[i].d);
    out[8 * h->n] = 0;
}
static void sx_report_viol(const hist_t *h, int probe) {
    char hex[8 * SX_MAXH + 1]; sx_hist_hex(h, hex);
    printf("VIOL {\"harness\":"); sx_json_str(stdout, SX->name);
    printf(",\"config\":"); sx_json_str(stdout, SX->config_str ? SX->config_str() : "");
    printf(",\"rule\":"); sx_json_str(stdout, sx_rule);
    printf(",\"sig\":"); sx_json_str(stdout, sx_sig);
    printf(",\"detail\":"); sx_json_str(stdout, sx_detail);
    printf(",\"probe\":%d,\"hex\":\"%s\",\"history\":", probe, hex); sx_json_hist(stdout, h);
    printf("}\n"); fflush(stdout);
    sx_viol++;
}

/* ---------- one execution ---------- */
/* replays h; if probe>=0 runs that probe afterwards.  Returns 0 ok, 1 violation (already reported).
 * On success with probe<0 leaves canon in keybuf and the enabled ops in en[]. */
static char sx_keybuf[4096];
static int sx_run(const hist_t *h, int probe, op_t *en, int *nen) {
    sx_execs++;
    sx_shm->n = h->n; memcpy((void *)sx_shm->ops, h->ops, sizeof(op_t) * h->n); sx_shm->probe = probe; sx_shm->phase = 1;
    sx_failed = 0; sx_obs_hash = 0x12345;
    volatile int stage = 0;
    if (setjmp(sx_jmp) == 0) {
        SX->reset();
        for (int i = 0; i < h->n; i++) { stage = i; SX->apply(h->ops[i]); }
        if (probe >= 0) { SX->probe(probe); }
        else {
            SX->canon(sx_keybuf, sizeof sx_keybuf);
            if (en) *nen = SX->enabled(en, 256);
        }
    }
    (void)stage;
    int failed = sx_failed;
    if (failed) sx_report_viol(h, probe);
    SX->cleanup();
    sx_shm->phase = 0;
    sx_key ok = { sx_obs_hash | 1, (uint64_t)h->n * 0 + 7 };
    sx_set_add(&sx_oset, &sx_oset_cap, &sx_oset_n, ok);
    return failed;
}

static long sx_extra_runs;
/* run one harness-generated history (all probes too); counts as a transition per op */
static int sx_run_extra(const hist_t *h) {
    sx_extra_runs++; sx_trans += h->n;
    int bad = sx_run(h, -1, NULL, NULL);
    for (int p = 0; !bad && p < SX->nprobes; p++) { sx_probe_runs++; bad = sx_run(h, p, NULL, NULL); }
    return bad;
}

/* ---------- exploration ---------- */
typedef struct { hist_t *v; size_t n, cap; } sx_vec;
static void sx_push(sx_vec *v, const hist_t *h) { if (v->n == v->cap) { v->cap = v->cap ? v->cap * 2 : 1024; v->v = realloc(v->v, v->cap * sizeof(hist_t)); if (!v->v) { fprintf(stderr, "oom frontier\n"); exit(3); } } v->v[v->n++] = *h; }

static sx_key sx_state_key(const hist_t *h) {
    char tail[64]; int k = sx_kdepth < h->n ? sx_kdepth : h->n; int p = 0;
    for (int i = h->n - k; i < h->n; i++) { memcpy(tail + p, &h->ops[i], 4); p += 4; }
    sx_key a = sx_hash(sx_keybuf, strlen(sx_keybuf), 0), b = sx_hash(tail, p, 77);
    return (sx_key){ a.a ^ (b.a * 31), a.b + b.b };
}

static hist_t sx_samples[6]; static int sx_nsamples;
static int sx_complete_depth = -1, sx_fixpoint, sx_capped;

static void sx_bfs(int maxdepth) {
    sx_vec cur = {0}, nxt = {0};
    hist_t h0 = {0}; op_t en[256]; int nen = 0;
    if (sx_run(&h0, -1, en, &nen)) return;
    sx_set_add(&sx_set, &sx_set_cap, &sx_set_n, sx_state_key(&h0)); sx_states++;
    for (int p = 0; p < SX->nprobes; p++) { sx_probe_runs++; sx_run(&h0, p, NULL, NULL); }
    sx_push(&cur, &h0);
    sx_complete_depth = 0;
    for (int d = 1; d <= maxdepth && cur.n; d++) {
        nxt.n = 0;
        for (size_t i = 0; i < cur.n; i++) {
            if ((i & 63) == 0 && sx_now() > sx_deadline) { sx_capped = 1; goto out; }
            if (sx_viol >= sx_max_viol) { sx_capped = 2; goto out; }
            /* enabled ops of this state: replay it once */
            if (sx_run(&cur.v[i], -1, en, &nen)) continue;   /* cannot happen: it passed before; nondeterminism guard */
            for (int e = 0; e < nen; e++) {
                hist_t h = cur.v[i]; h.ops[h.n++] = en[e];
                op_t en2[256]; int nen2;
                sx_trans++;
                if (sx_run(&h, -1, en2, &nen2)) continue;
                int isnew = sx_set_add(&sx_set, &sx_set_cap, &sx_set_n, sx_state_key(&h));
                int bad = 0;
                if (isnew || sx_probe_all)
                    for (int p = 0; p < SX->nprobes; p++) { sx_probe_runs++; if (sx_run(&h, p, NULL, NULL)) { bad = 1; break; } }
                if (isnew) {
                    sx_states++;
                    if (sx_nsamples < 6 && (sx_states % 97 == 3 || d == maxdepth)) sx_samples[sx_nsamples++] = h;
                    if (!bad && h.n < SX_MAXH - 1) sx_push(&nxt, &h);
                }
            }
        }
        sx_complete_depth = d;
        sx_vec t = cur; cur = nxt; nxt = t;
        if (!sx_quiet) fprintf(stderr, "[%s %s] depth %d: frontier %zu states %ld trans %ld execs %ld viol %ld\n", SX->name, SX->config_str ? SX->config_str() : "", d, cur.n, sx_states, sx_trans, sx_execs, sx_viol);
    }
    if (!cur.n) sx_fixpoint = 1;
out:
    free(cur.v); free(nxt.v);
}

/* stateless: every history up to depth d, no dedup, probes on the leaves */
static int sx_stateless_depth_done = -1;
static void sx_dfs(hist_t *h, int maxdepth) {
    op_t en[256]; int nen = 0;
    if (sx_capped) return;
    if ((sx_stateless_runs & 255) == 0 && sx_now() > sx_deadline) { sx_capped = 1; return; }
    if (sx_viol >= sx_max_viol) { sx_capped = 2; return; }
    sx_stateless_runs++;
    if (sx_run(h, -1, en, &nen)) return;
    if (h->n >= maxdepth) { if (SX->nprobes) { sx_probe_runs++; sx_run(h, 0, NULL, NULL); } return; }
    for (int e = 0; e < nen; e++) { h->ops[h->n++] = en[e]; sx_trans++; sx_dfs(h, maxdepth); h->n--; }
}

static int sx_parse_hex(const char *hex, hist_t *h) {
    size_t L = strlen(hex); if (L % 8 || L / 8 > SX_MAXH) return -1; h->n = L / 8;
    for (int i = 0; i < h->n; i++) { unsigned c, a, b, d; if (sscanf(hex + 8 * i, "%2x%2x%2x%2x", &c, &a, &b, &d) != 4) return -1; h->ops[i] = (op_t){c, a, b, d}; }
    return 0;
}

static int sx_worker(int depth, int sdepth, const char *replay) {
    if (replay) {
        hist_t h; if (sx_parse_hex(replay, &h)) { fprintf(stderr, "bad history\n"); return 2; }
        int bad = sx_run(&h, -1, NULL, NULL);
        for (int p = 0; !bad && p < SX->nprobes; p++) bad = sx_run(&h, p, NULL, NULL);
        printf("REPLAY %s\n", bad ? "VIOLATION" : "ok"); fflush(stdout);
        return bad ? 1 : 0;
    }
    double t0 = sx_now();
    if (SX->extra) SX->extra();
    if (depth > 0) sx_bfs(depth);
    if (sdepth > 0 && !sx_capped) { hist_t h = {0}; sx_dfs(&h, sdepth); if (!sx_capped) sx_stateless_depth_done = sdepth; }
    printf("STAT {\"harness\":"); sx_json_str(stdout, SX->name);
    printf(",\"config\":"); sx_json_str(stdout, SX->config_str ? SX->config_str() : "");
    printf(",\"states\":%ld,\"transitions\":%ld,\"executions\":%ld,\"probe_runs\":%ld,\"stateless_runs\":%ld,\"extra_runs\":%ld,\"distinct_outcomes\":%zu,"
           "\"violations\":%ld,\"bfs_depth_target\":%d,\"bfs_depth_complete\":%d,\"fixpoint\":%s,\"stateless_depth_complete\":%d,"
           "\"capped\":%d,\"k_last_ops\":%d,\"probes_on_every_transition\":%d,\"wall_s\":%.2f,\"samples\":[",
           sx_states, sx_trans, sx_execs, sx_probe_runs, sx_stateless_runs, sx_extra_runs, sx_oset_n, sx_viol, depth, sx_complete_depth,
           sx_fixpoint ? "true" : "false", sx_stateless_depth_done, sx_capped, sx_kdepth, sx_probe_all, sx_now() - t0);
    for (int i = 0; i < sx_nsamples; i++) { if (i) printf(","); sx_json_hist(stdout, &sx_samples[i]); }
    printf("]}\n"); fflush(stdout);
    return sx_viol ? 1 : 0;
}

/* usage: <harness> [--depth D] [--stateless D] [--k K] [--deadline SECONDS] [--replay HEX] [harness args...] */
static int sx_main(int argc, char **argv, const sx_harness *H) {
    SX = H;
    int depth = 6, sdepth = 0; double dl = 60; const char *replay = NULL;
    for (int i = 1; i < argc; i++) {
        if (!strcmp(argv[i], "--depth") && i + 1 < argc) depth = atoi(argv[++i]);
        else if (!strcmp(argv[i], "--stateless") && i + 1 < argc) sdepth = atoi(argv[++i]);
        else if (!strcmp(argv[i], "--k") && i + 1 < argc) sx_kdepth = atoi(argv[++i]);
        else if (!strcmp(argv[i], "--deadline") && i + 1 < argc) dl = atof(argv[++i]);
        else if (!strcmp(argv[i], "--replay") && i + 1 < argc) replay = argv[++i];
        else if (!strcmp(argv[i], "--quiet")) sx_quiet = 1;
        else if (!strcmp(argv[i], "--probe-new-only")) sx_probe_all = 0;
    }
    if (H->config) H->config(argc, argv);
    sx_deadline = sx_now() + dl;
    sx_shm = mmap(NULL, 4096, PROT_READ | PROT_WRITE, MAP_SHARED | MAP_ANONYMOUS, -1, 0);
    fflush(stdout);
    pid_t pid = fork();
    if (pid == 0) { _exit(sx_worker(depth, sdepth, replay)); }
    int st = 0; waitpid(pid, &st, 0);
    if (WIFEXITED(st) && WEXITSTATUS(st) <= 1) return WEXITSTATUS(st);
    /* crash / sanitizer abort: attribute to the history in flight */
    hist_t h; h.n = sx_shm->n; memcpy(h.ops, (void *)sx_shm->ops, sizeof(op_t) * h.n);
    snprintf(sx_rule, sizeof sx_rule, "CR.crash");
    snprintf(sx_sig, sizeof sx_sig, "CR.crash|%s", H->name);
    if (WIFSIGNALED(st)) snprintf(sx_detail, sizeof sx_detail, "worker killed by signal %d while executing this history (probe %d)", WTERMSIG(st), sx_shm->probe);
    else snprintf(sx_detail, sizeof sx_detail, "worker exited with status %d (sanitizer abort?) while executing this history (probe %d)", WEXITSTATUS(st), sx_shm->probe);
    sx_report_viol(&h, sx_shm->probe);
    printf("STAT {\"harness\":"); sx_json_str(stdout, SX->name);
    printf(",\"config\":"); sx_json_str(stdout, SX->config_str ? SX->config_str() : "");
    printf(",\"states\":0,\"transitions\":0,\"executions\":0,\"violations\":1,\"crashed\":true,\"capped\":3,\"samples\":[]}\n");
    return 1;
}
#endif
