"""Table of checks: property id -> parts (harness binaries) and the runs of each tier.
Each run is an argument list for the harness binary; runs of a check are executed in parallel."""


def seqx_part(name, harness, libs, quick, thorough, variant='asan', **kw):
    d = dict(name=name, harness=harness, sources=['harness/%s.c' % harness], libs=libs, variant=variant,
             quick=quick, thorough=thorough)
    d.update(kw)
    return d


CHECKS = {}

CHECKS['C10'] = dict(
    title='ref-counted blocks',
    rule='in-process BFS over histories of new/ref/unref/unrefp/size on 3 slots (<=3 user refs, nested destructor) '
         'against a counting monitor + every size 0..4096 x {dtor,no dtor}; state = (monitor state, last op)',
    bounds=dict(quick='BFS to fixpoint (slots are used once), stateless depth 4, all sizes 0..4096',
                thorough='BFS to fixpoint with k=2, stateless depth 6, all sizes 0..4096'),
    assumptions=['allocator observed through the memhook table', 'ASan/UBSan instrumented build of Lib/mem'],
    parts=[seqx_part('mem', 'c10_mem', ['mem', 'utils'],
                     quick=[['--depth', 30, '--stateless', 4, '--deadline', 60]],
                     thorough=[['--depth', 30, '--k', 2, '--stateless', 5, '--deadline', 600]])],
)

def _c12_runs(depth, sdepth, k, dl, maxn):
    runs = []
    for kind in ('queue', 'stack'):
        for d in (1, 0):
            runs.append(['--kind', kind, '--dtor', d, '--maxn', maxn, '--depth', depth, '--stateless', sdepth, '--k', k, '--deadline', dl])
    for cmp_ in (0, 1, 2):      # 2: key-style comparator (an element passed as key matches by pointer identity only)
        for d in (1, 0):
            if cmp_ == 2 and not d:
                continue
            runs.append(['--kind', 'list', '--cmp', cmp_, '--dtor', d, '--maxn', maxn, '--depth', depth, '--stateless', sdepth, '--k', k, '--deadline', dl])
    return runs


CHECKS['C12'] = dict(
    title='queue / stack / list disciplines',
    rule='in-process BFS over the full API of each container (fresh element identity per insertion, one live iterator, '
         'iterator edits at every position) against an array monitor; 4 probe suffixes (free, sentinel+drain, clear+reuse, '
         'remove-all iterator pass) on every new state; state = (monitor state, last k ops)',
    bounds=dict(quick='<=4 elements, BFS to fixpoint, k=1, stateless depth 5',
                thorough='<=5 elements, BFS to fixpoint, k=2, stateless depth 7'),
    assumptions=['containers are not mutated from outside while an iterator is live (iterator invalidation is a caller error)',
                 'list: only {removals | insertions | insert,remove | remove,insert} between two itr_next calls (other mixes unspecified)'],
    parts=[seqx_part('containers', 'c12_cont', ['structs', 'utils'],
                     quick=_c12_runs(40, 5, 1, 100, 4),
                     thorough=_c12_runs(40, 7, 2, 900, 5))],
)


def _c11_runs(nk, depth, sdepth, k, dl):
    return [['--cmp', c, '--dtor', d, '--nkeys', nk, '--depth', depth, '--stateless', sdepth, '--k', k, '--deadline', dl]
            for c in ('user', 'default') for d in (1, 0)]


CHECKS['C11'] = dict(
    title='ordered set (BST)',
    rule='in-process BFS over insert/remove/find/traverse/iterator/clear histories on N keys against a sorted-set monitor; '
         'dedup key = observed pre-order (tree shape) + identities + iterator position + last k ops, so every insertion order giving a '
         'different tree is expanded; after every op: len, 3 traversals (in-order ascending, post-order consistent with the tree fixed by the pre-order), '
         'find of every key, destructor log; 4 probe suffixes',
    bounds=dict(quick='5 keys (user comparator: 2 identities for equal keys; default comparator: pointers up to 2^47 apart), BFS depth 9, stateless depth 4',
                thorough='7 keys, BFS to fixpoint (k=2), stateless depth 5'),
    assumptions=['set not mutated from outside while an iterator is live'],
    parts=[seqx_part('bst', 'c11_bst', ['structs', 'utils'],
                     quick=_c11_runs(5, 9, 4, 1, 100),
                     thorough=_c11_runs(7, 40, 5, 2, 1500))],
)


def _c05_runs(nk, maxlive, depth, sdepth, k, dl, flagsets, dtors):
    return [['--flags', f, '--dtor', d, '--nkeys', nk, '--maxlive', maxlive, '--depth', depth, '--stateless', sdepth, '--k', k, '--deadline', dl]
            for f in flagsets for d in dtors]


CHECKS['C05'] = dict(
    title='map is a dictionary',
    rule='in-process BFS over put/put-same/remove/iterate(6 callback behaviours)/iterator(next,set,remove)/clear histories against a dictionary monitor; '
         'built with the guarded hook LIBMODULE_VERIF_MAP_SIZE=8 (8-slot table: forced collisions, shared home slots, clusters wrapping the table end, two growth steps) '
         'and once more at the default table size; dedup key = observed iteration order (layout) + growth history + iterator state + last k ops; '
         'after every op: len/get/contains of every key, callback iteration visits each live key once, destructor log, allocator ledger (one key copy per live entry); 5 probe suffixes',
    bounds=dict(quick='8-slot table: 10 keys, <=8 live, 6 flag sets x {dtor,no dtor}, BFS depth 6 (k=1), stateless depth 3; default table: depth 5',
                thorough='8-slot table: 10 keys, <=8 live, BFS depth 9 (k=2), stateless depth 4; default table: depth 7'),
    assumptions=['map not mutated from outside while an iterator is live; iterate callbacks only remove the current entry',
                 'AUTOFREE without DUP: ownership of the key passed to a put that hits an existing key is unspecified (either outcome accepted)'],
    parts=[seqx_part('tiny', 'c05_map', ['structs', 'utils'], lib_defines=['LIBMODULE_VERIF_MAP_SIZE=8'], cflags=['-DLIBMODULE_VERIF_MAP_SIZE=8'],
                     quick=_c05_runs(10, 8, 6, 3, 1, 150, (0, 1, 2, 4, 5, 6), (1, 0)),
                     thorough=_c05_runs(10, 8, 9, 4, 2, 1500, (0, 1, 2, 4, 5, 6), (1, 0))),
           seqx_part('default', 'c05_map', ['structs', 'utils'],
                     quick=_c05_runs(5, 5, 5, 0, 1, 100, (0, 5), (1,)),
                     thorough=_c05_runs(6, 6, 7, 3, 2, 900, (0, 5, 6), (1, 0)))],
)


PTHREAD_WRAP = '-Wl,' + ','.join('--wrap=' + f for f in (
    'pthread_mutex_init pthread_mutex_destroy pthread_mutex_lock pthread_mutex_trylock pthread_mutex_unlock '
    'pthread_cond_init pthread_cond_destroy pthread_cond_wait pthread_cond_timedwait pthread_cond_signal pthread_cond_broadcast '
    'pthread_create pthread_join').split())


def schedx_part(name, harness, libs, quick, thorough, variant='asan', **kw):
    d = dict(name=name, harness=harness, sources=['harness/%s.c' % harness], plain_sources=['engine/schedx.c'],
             plain_cflags=['-DSCHEDX_TSAN'] if variant == 'tsan' else [], libs=libs, variant=variant,
             ldflags=[PTHREAD_WRAP], quick=quick, thorough=thorough)
    d.update(kw)
    return d


def _c06_cfgs(maxthr, maxtask, with_nested=True):
    out = []
    for flags in (0, 1, 2, 3):
        for wait in (1, 0):
            for thr in range(1, maxthr + 1):
                for tasks in range(1, maxtask + 1):
                    out.append(dict(threads=thr, tasks=tasks, flags=flags, wait=wait, submitters=0, nested=0))
            out.append(dict(threads=min(2, maxthr), tasks=2, flags=flags, wait=wait, submitters=2, nested=0))
            if with_nested:
                out.append(dict(threads=min(2, maxthr), tasks=min(2, maxtask), flags=flags, wait=wait, submitters=0, nested=1))
    return out


def _c06_extra(budget, dl, workers, tsan=False):
    """m_thpool_length / m_thpool_clear called by a running task and by the submitting thread (also while the pool shuts down), and the
    fault deviation 'the n-th pthread_create fails' (eager pools: inside m_thpool_new; lazy pools: inside m_thpool_add)"""
    out = []
    for flags in ((0, 3) if tsan else (0, 1, 2, 3)):
        for wait in ((1,) if tsan else (1, 0)):
            for probe in ((3,) if tsan else (1, 2, 12)):
                out.append(['--threads', 2, '--tasks', 2, '--flags', flags, '--wait', wait, '--submitters', 0, '--nested', 0, '--probe', probe,
                            '--budget', budget, '--spurious', 0, '--deadline', dl, '--workers', workers, '--prune', 1])
        if not tsan:
            for fc in (1, 2):
                out.append(['--threads', 2, '--tasks', 2, '--flags', flags, '--wait', 1, '--submitters', 0, '--nested', 0, '--failcreate', fc,
                            '--budget', budget, '--spurious', 0, '--deadline', dl, '--workers', workers, '--prune', 1])
    return out


def _c06_runs(cfgs, budget, spurious, dl, workers, extra=(), sub_budget=None):
    out = []
    for c in cfgs:
        b = budget if not c['submitters'] or sub_budget is None else sub_budget
        out.append(['--threads', c['threads'], '--tasks', c['tasks'], '--flags', c['flags'], '--wait', c['wait'], '--submitters', c['submitters'],
                    '--nested', c['nested'], '--budget', b, '--spurious', spurious, '--deadline', dl, '--workers', workers] + list(extra))
    return out


CHECKS['C06'] = dict(
    title='thread pool',
    rule='every schedule (lock/unlock/cond/create/join/yield granularity, signal waiter choice enumerated) of the real thpool.c with real threads under a '
         'serialising scheduler, within the preemption budget; per-schedule oracle: task run counts/arguments, concurrency width, free-return obligations, '
         'use-after-destroy of mutex/condition, deadlock, parked threads at quiescence, ASan (and TSan in the tsan part)',
    bounds=dict(quick='pools of 1-2 threads x 1-2 tasks x {eager,LAZY,DETACHED,LAZY|DETACHED} x wait_all{0,1}, + two submitter threads, + task submitting to its own pool, + m_thpool_length / m_thpool_clear from a running task and from the submitting thread, + fault deviation: the 1st / 2nd pthread_create fails; preemption budget 2 (state-pruned DFS), ASan; TSan on a subset',
                thorough='up to 3 threads x 3 tasks, budget 3, spurious wake-ups 1, ASan + TSan, pruned/unpruned cross-check'),
    assumptions=['sequentially consistent interleavings at pthread-operation granularity; C11 atomics are not scheduling points',
                 'm_thpool_add racing with m_thpool_free from an unrelated thread is a caller-side use-after-free and is not generated'],
    parallel=4,
    parts=[schedx_part('asan', 'c06_thpool', ['thpool', 'structs', 'utils'],
                       quick=_c06_runs(_c06_cfgs(2, 2), 2, 0, 100, 4, ['--prune', 1], sub_budget=1) + _c06_extra(2, 100, 4),
                       thorough=_c06_runs(_c06_cfgs(3, 3), 3, 1, 300, 4, ['--prune', 1], sub_budget=2) + _c06_extra(3, 300, 4)),
           schedx_part('tsan', 'c06_thpool', ['thpool', 'structs', 'utils'], variant='tsan',
                       quick=_c06_runs([c for c in _c06_cfgs(2, 2, False) if c['threads'] == 2 and c['tasks'] == 2 and (not c['submitters'] or (c['flags'] in (0, 3) and c['wait'] == 1))], 1, 0, 100, 4, ['--prune', 1]) + _c06_extra(1, 100, 4, True),
                       thorough=_c06_runs(_c06_cfgs(2, 3, False), 2, 1, 300, 4, ['--prune', 1]) + _c06_extra(2, 300, 4, True))],
)


SHIM_WRAP = '-Wl,' + ','.join('--wrap=' + f for f in (
    'clock_gettime timerfd_create timerfd_settime close pipe dup epoll_create1 eventfd signalfd inotify_init1 syscall epoll_wait epoll_ctl write read regcomp regfree').split())
ALL_LIBS = ['core', 'thpool', 'structs', 'mem', 'utils']


def world_part(name, quick, thorough, **kw):
    d = dict(name=name, harness='world', runner='worldx', sources=['harness/world.c', 'engine/shim.c'], libs=ALL_LIBS, variant='asan',
             ldflags=[SHIM_WRAP], quick=quick, thorough=thorough)
    d.update(kw)
    return d


_WORLD_ARGS = {'C09': ['--keylimit', 2], 'C09X': ['--keylimit', 2]}      # extra harness arguments per profile (quick tier; thorough runs the whole key menu)


def _w(prop, nmods, maxdev, depth, dl, k=1, tier='quick'):
    return ['--prop', prop, '--nmods', nmods, '--maxdev', maxdev, '--depth', depth, '--deadline', dl, '--k', k] + (_WORLD_ARGS.get(prop, []) if tier == 'quick' else [])


CHECKS['SMOKE'] = dict(title='world smoke', parallel=1, parts=[world_part('w', quick=[_w('SMOKE', 2, 0, 4, 60)], thorough=[_w('SMOKE', 2, 0, 6, 300)])])

# property: (modules, deviation budget, depth) for quick and thorough; every run finishes whole BFS levels only
_WORLD = {
    'C01': ((2, 1, 5), (3, 2, 7)),
    'C02': ((2, 1, 4), (3, 2, 6)),
    'C03': ((2, 1, 3), (2, 2, 5)),
    'C04': ((2, 2, 2), (2, 2, 4)),
    'C07': ((2, 1, 5), (3, 2, 8)),      # quick: depth 5 (depth 6 no longer completes within the deadline since ALLOW_REPLACE modules joined the flag sets)
    'C08': ((2, 0, 4), (3, 0, 6)),
    'C09': ((1, 0, 4), (1, 0, 6)),
    'C13': ((1, 0, 6), (2, 0, 8)),
    'C15': ((2, 1, 4), (3, 2, 6)),
    'C16': ((2, 3, 4), (2, 4, 6)),
    'C17': ((2, 2, 4), (2, 3, 6)),
    'C18': ((2, 0, 4), (2, 0, 6)),
    'C19': ((2, 1, 4), (3, 1, 6)),
    'C20': ((2, 1, 3), (2, 2, 5)),
}
# dedup history window (last k operations in the key) of the quick tier where it is affordable; thorough always uses 2
_WORLD_K = {'C15': 2, 'C03': 2}
# extra runs (modules, deviations, depth) per tier: wider populations at smaller depth
_WORLD_EXTRA = {
    'C02': ([(3, 1, 3)], [(3, 1, 4)]),
    'C08': ([(3, 0, 3)], []),
    'C19': ([(3, 0, 4), (2, 0, 6)], []),
    'C01': ([(3, 1, 4)], []),
    'C17': ([(1, 2, 8)], [(1, 3, 10)]),      # one module, deeper: stop from inside a handler, restart, then deliveries
    'C16': ([(1, 3, 5)], [(1, 4, 8)]),      # one module, deeper: handlers invoked by unstash that stash / unstash / stop again
}
_WORLD_EXTRA_PROFILE = {      # further profiles of harness/world.c run under the same property: [(quick, thorough)], each (profile, modules, deviations, depth)
    'C03': [(('C03E', 2, 0, 3), ('C03E', 2, 0, 5))],      # signal / path / pid events
    'C02': [(('C02O', 1, 0, 7), ('C02O', 2, 0, 7)),
            (('C02D', 1, 0, 6), ('C02D', 2, 0, 6))],      # DUP topics / AUTOFREE user data / replaced subscriptions with messages in flight: what the recipient is handed (topic, user pointer)      # one-shot subscriptions: used up by the first message sent under them, wherever it is handed over
    'C07': [(('C07O', 1, 0, 8), ('C07O', 2, 0, 8)),
            (('C07D', 1, 1, 4), ('C07D', 2, 2, 5))],      # context calls (also a second m_ctx_register) armed inside callbacks of plain and DENY_CTX modules      # context registered with NAME_DUP / auto-free name and user data
    'C19': [(('C19T', 1, 0, 6), ('C19T', 2, 0, 7))],      # tick period changed while the loop runs: never more often than the period in force
    'C04': [(('C04F', 2, 1, 5), ('C04F', 2, 2, 6)),
            (('C04N', 1, 1, 5), ('C04N', 2, 2, 6)),      # the same on a non persistent context (released when its last module goes, also inside the final flush)
            (('C09S', 1, 0, 5), ('C09S', 1, 0, 7))],      # subscriptions with DUP topics / AUTOFREE user data / replacement under the memory-safety oracle
    'C13': [(('C13B', 1, 0, 5), ('C13B', 1, 0, 7))],      # batching and priorities on a module that also has a token bucket (refill ticks are internal timer events)
    'C20': [(('C20T', 1, 1, 6), ('C20T', 2, 2, 6))],      # the context tick: set / cleared at top level and from callbacks, also while the loop stops
    'C09': [(('C09S', 1, 0, 6), ('C09S', 1, 0, 8)),
            (('C09T', 1, 0, 4), ('C09T', 1, 0, 6)),       # user timers next to the library's internal ones (bucket refill 1 ms = timer #1, batch timeout)       # subscriptions alone (DUP topics, auto-free user data, replacement)
            (('C09X', 1, 0, 3), ('C09X', 1, 0, 4))],      # sources and subscriptions together
}
for _p, (_q, _t) in _WORLD.items():
    _xq, _xt = _WORLD_EXTRA.get(_p, ([], []))
    CHECKS[_p] = dict(title=_p, parallel=1, rule='BFS over histories of the %s profile of harness/world.c (see DESIGN.md 6/%s): dedup on (canonical monitor state, last k ops), 2 probe suffixes per new state' % (_p, _p),
                      bounds=dict(quick='modules=%d deviations<=%d depth=%d' % _q + ''.join('; modules=%d deviations<=%d depth=%d' % x for x in _xq),
                                  thorough='modules=%d deviations<=%d depth=%d k=2' % _t + ''.join('; modules=%d deviations<=%d depth=%d' % x for x in _xt)),
                      assumptions=['single thread, one context', 'real kernel pipes/epoll, virtual time through the link-time shim', 'handles passed are live references owned by the caller'],
                      parts=[world_part('w', quick=[_w(_p, _q[0], _q[1], _q[2], 250, _WORLD_K.get(_p, 1))] + [_w(_p, x[0], x[1], x[2], 200) for x in _xq],
                                        thorough=[_w(_p, _t[0], _t[1], _t[2], 1200, 2, 'thorough')] + [_w(_p, x[0], x[1], x[2], 600, 2, 'thorough') for x in _xt])])
    for _eq, _et in _WORLD_EXTRA_PROFILE.get(_p, []):
        CHECKS[_p]['parts'][0]['quick'].append(_w(_eq[0], _eq[1], _eq[2], _eq[3], 200))
        CHECKS[_p]['parts'][0]['thorough'].append(_w(_et[0], _et[1], _et[2], _et[3], 600, 2, 'thorough'))
        CHECKS[_p]['bounds']['quick'] += '; profile %s modules=%d depth=%d' % (_eq[0], _eq[1], _eq[3])
        CHECKS[_p]['bounds']['thorough'] += '; profile %s modules=%d depth=%d k=2' % (_et[0], _et[1], _et[3])


def _c14_runs(threads, prog, budget, dl, foreign=0, workers=8):
    return ['--threads', threads, '--prog', prog, '--foreign', foreign, '--budget', budget, '--deadline', dl, '--workers', workers, '--prune', 1]


CHECKS['C14'] = dict(
    title='independent contexts, thread-confined modules',
    rule='every interleaving (scheduling points between API calls of each thread and at every pthread operation inside the library) of N threads each running its own context '
         'program, within the preemption budget; per schedule: TSan (tsan part) / ASan (asan part) and per-context observation log identical to the same program run alone; '
         'plus every module call from a foreign thread (holding another context, or none; made while the owner is outside callbacks, and while it executes the attacked module\'s own event handler) must fail with a permission error without effect',
    bounds=dict(quick='2 threads: narrow program budget 3, wide program budget 2, task program budget 2; foreign-thread calls budget 2; TSan + ASan',
                thorough='3 threads narrow budget 3; 2 threads wide budget 3, task budget 3; TSan + ASan'),
    assumptions=['sequentially consistent interleavings; scheduling points only between API calls and at pthread operations (data races inside a call are left to TSan happens-before analysis)'],
    parallel=2,
    parts=[schedx_part('tsan', 'c14_ctx', ALL_LIBS, variant='tsan',
                       quick=[_c14_runs(2, 'narrow', 3, 100), _c14_runs(2, 'wide', 2, 100), _c14_runs(2, 'task', 2, 100), _c14_runs(2, 'narrow', 2, 100, 1), _c14_runs(2, 'narrow', 2, 100, 2), _c14_runs(2, 'narrow', 2, 100, 3), _c14_runs(2, 'narrow', 2, 100, 4)],
                       thorough=[_c14_runs(3, 'narrow', 3, 1500), _c14_runs(2, 'wide', 3, 1500), _c14_runs(2, 'task', 3, 1500), _c14_runs(2, 'narrow', 3, 600, 1), _c14_runs(2, 'narrow', 3, 600, 2), _c14_runs(2, 'narrow', 3, 600, 3), _c14_runs(2, 'narrow', 3, 600, 4)]),
           schedx_part('asan', 'c14_ctx', ALL_LIBS,
                       quick=[_c14_runs(2, 'wide', 2, 100), _c14_runs(2, 'task', 2, 100), _c14_runs(2, 'narrow', 2, 100, 1), _c14_runs(2, 'narrow', 2, 100, 3)],
                       thorough=[_c14_runs(3, 'narrow', 2, 900), _c14_runs(2, 'wide', 2, 900), _c14_runs(2, 'task', 2, 900)])],
)

# C15: a second part for nested callbacks (a DENY_CTX module whose callback runs inside another module's callback)
CHECKS['C15']['parts'].append(world_part('nested', quick=[_w('C15N', 2, 2, 4, 200)], thorough=[_w('C15N', 2, 3, 6, 900, 2)]))
CHECKS['C15']['bounds']['quick'] += '; nested-callback profile (A registered with DENY_CTX, B plain): depth 4, <=2 armed actions'
# C04: besides the union alphabet, the source/retained-event profile (same oracle: ASan + both ledgers + zombie queries)
CHECKS['C04']['parts'].append(world_part('sources', quick=[_w('C20', 2, 1, 3, 250)], thorough=[_w('C20', 2, 2, 5, 1500, 2)]))
CHECKS['C04']['bounds']['quick'] += '; source/retained-event profile: depth 3, <=1 armed action'

# C03: second part - blocking m_ctx_loop() vs m_ctx_dispatch() differential (in-process enumeration of programs)
def _c03loop(steps, reacts, dl, shards=16):
    return [['--steps', steps, '--reactions', reacts, '--deadline', dl, '--shard', '%d/%d' % (i, shards)] for i in range(shards)]


CHECKS['C03']['parts'].append(dict(name='loopdiff', harness='c03_loop', sources=['harness/c03_loop.c', 'engine/shim.c'], libs=ALL_LIBS, variant='asan',
                                   ldflags=[SHIM_WRAP], quick=_c03loop(4, 1, 150), thorough=_c03loop(5, 2, 1500)))
CHECKS['C03']['bounds']['quick'] += '; loop-vs-dispatch differential: every program of <=4 environment/user steps (7 letters) x <=1 scripted handler reaction (24), both driving modes'
CHECKS['C03']['bounds']['thorough'] += '; loop-vs-dispatch differential: <=5 steps x <=2 reactions'
CHECKS['C03']['parallel'] = 16

# C02: second part - the real pipe capacity (8192 pending messages), a deterministic run (not an enumeration)
CHECKS['C02']['parts'].append(dict(name='capacity', harness='c02_flood', sources=['harness/c02_flood.c'], libs=ALL_LIBS, variant='asan', replayable=True,
                                   quick=[[]], thorough=[[]]))
CHECKS['C02']['bounds']['quick'] += '; capacity runs N in {1,100,8191,8192,8193,9000} x {plain,AUTOFREE} against the real pipe'

# C04: third part - tasks in flight when their module stops (schedx on the core, ASan)
def _c04task(scn, budget, dl):
    return ['--scenario', scn, '--budget', budget, '--deadline', dl, '--workers', 4, '--prune', 1]


CHECKS['C04']['parts'].append(schedx_part('task', 'c04_task', ALL_LIBS, quick=[_c04task(s, 2, 100) for s in (0, 1, 2, 3, 4, 5, 7, 8)], thorough=[_c04task(s, 3, 600) for s in (0, 1, 2, 3, 4, 5, 7, 8)]))
# the same scenarios under TSan, as part of C14 (task sources running concurrently with their context); pause/resume with a task in flight is excluded (it restarts the task: unspecified)
CHECKS['C20']['parts'].append(schedx_part('task-fd', 'c04_task', ALL_LIBS, quick=[_c04task(6, 2, 100)], thorough=[_c04task(6, 3, 600)]))
CHECKS['C20']['bounds']['quick'] += '; task completion descriptors: task delivered, user opens descriptors, loop stop and context release under every interleaving (budget 2)'
CHECKS['C14']['parts'].append(schedx_part('task-tsan', 'c04_task', ALL_LIBS, variant='tsan', quick=[_c04task(s, 2, 100) for s in (0, 1, 2, 4, 5, 7, 8)], thorough=[_c04task(s, 3, 600) for s in (0, 1, 2, 4, 5, 7, 8)]))
CHECKS['C04']['bounds']['quick'] += '; task in flight: 6 scenarios (deliver, stop, deregister, pause/resume, quit, stop+restart while the task body runs), every interleaving with the pool worker within 2 preemptions'
