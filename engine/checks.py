"""Table of checks: property id -> parts (harness binaries) and the runs of each tier.
Each run is an argument list for the harness binary; runs of a check are executed in parallel."""


def seqx_part(name, harness, libs, quick, thorough, variant='asan', **kw):
    d = dict(name=name, harness=harness, sources=['harness/%s.c' % harness], libs=libs, variant=variant,
             quick=quick, thorough=thorough)
    d.update(kw)
    return d


CHECKS = {}

CHECKS['C10'] = dict(
    title='ref-counted blocks',
    rule='in-process BFS over histories of new/ref/unref/unrefp/size on 3 slots (<=3 user refs, nested destructor) '
         'against a counting monitor + every size 0..4096 x {dtor,no dtor}; state = (monitor state, last op)',
    bounds=dict(quick='BFS to fixpoint (slots are used once), stateless depth 4, all sizes 0..4096',
                thorough='BFS to fixpoint with k=2, stateless depth 6, all sizes 0..4096'),
    assumptions=['allocator observed through the memhook table', 'ASan/UBSan instrumented build of Lib/mem'],
    parts=[seqx_part('mem', 'c10_mem', ['mem', 'utils'],
                     quick=[['--depth', 30, '--stateless', 4, '--deadline', 60]],
                     thorough=[['--depth', 30, '--k', 2, '--stateless', 5, '--deadline', 600]])],
)
