/* schedx — see schedx.h.  This TU is compiled WITHOUT sanitizer instrumentation: the baton hand-off
 * (raw futex) must stay invisible to ThreadSanitizer so that it creates no happens-before edge; the
 * modelled mutex operations are annotated with __tsan_acquire/__tsan_release instead. */
#define _GNU_SOURCE
#include "schedx.h"
#include <stdio.h>
#include <stdlib.h>
#include <string.h>
#include <stdarg.h>
#include <errno.h>
#include <time.h>
#include <unistd.h>
#include <pthread.h>
#include <signal.h>
#include <sys/mman.h>
#include <sys/wait.h>
#include <sys/syscall.h>
#include <linux/futex.h>

#ifdef SCHEDX_TSAN
void __tsan_acquire(void *addr);
void __tsan_release(void *addr);
#define TSAN_ACQ(a) __tsan_acquire(a)
#define TSAN_REL(a) __tsan_release(a)
#else
#define TSAN_ACQ(a) ((void)0)
#define TSAN_REL(a) ((void)0)
#endif

int __real_pthread_create(pthread_t *, const pthread_attr_t *, void *(*)(void *), void *);
int __real_pthread_join(pthread_t, void **);
int __real_pthread_mutex_init(pthread_mutex_t *, const pthread_mutexattr_t *);
int __real_pthread_mutex_destroy(pthread_mutex_t *);
int __real_pthread_mutex_lock(pthread_mutex_t *);
int __real_pthread_mutex_trylock(pthread_mutex_t *);
int __real_pthread_mutex_unlock(pthread_mutex_t *);
int __real_pthread_cond_init(pthread_cond_t *, const pthread_condattr_t *);
int __real_pthread_cond_destroy(pthread_cond_t *);
int __real_pthread_cond_wait(pthread_cond_t *, pthread_mutex_t *);
int __real_pthread_cond_timedwait(pthread_cond_t *, pthread_mutex_t *, const struct timespec *);
int __real_pthread_cond_signal(pthread_cond_t *);
int __real_pthread_cond_broadcast(pthread_cond_t *);

#define MAXT 12
#define MAXM 24
#define MAXC 24
#define MAXCH 6000
#define MAXSTEP 3000

enum { ST_UNUSED, ST_READY, ST_WAITCOND, ST_DONE };
enum { OP_NONE, OP_START, OP_LOCK, OP_UNLOCKED, OP_CONDWAIT, OP_SIGNAL, OP_BROADCAST, OP_CREATE, OP_JOIN, OP_YIELD, OP_FINAL,
       OP_MDESTROY, OP_CDESTROY, OP_MINIT, OP_CINIT, OP_RELOCK, OP_SYS, OP_PASS };
static const char *opname[] = { "none", "start", "lock", "unlocked", "cond_wait", "signal", "broadcast", "create", "join", "yield", "final",
                                "mutex_destroy", "cond_destroy", "mutex_init", "cond_init", "relock", "sys", "pass" };

typedef struct { int st, op, obj; volatile int go; pthread_t real; int detached; uint64_t obs; void *(*fn)(void *); void *arg; long nops; uint64_t hb, wake_hb; } thr_t;
typedef struct { void *addr; int owner, destroyed; uint64_t rel_hb; } mtx_t;
typedef struct { void *addr; int destroyed, nwait; int waiters[MAXT]; int wmutex[MAXT]; } cnd_t;

static thr_t T[MAXT]; static int nT;
static mtx_t M[MAXM]; static int nM;
static cnd_t C[MAXC]; static int nC;
static volatile int cur;
static int active;
static long step_clock;

/* Happens-before hash: a thread's hb summarises its own operations plus, transitively, those of every thread it
 * synchronised with (lock hand-over, signal->wake, create, join).  Two schedule prefixes with equal per-thread hb
 * values are linearisations of the same partial order, hence reach the same program state (data-race freedom is
 * checked separately by TSan); this is what makes state-based pruning of the schedule tree sound. */
static inline uint64_t hbmix(uint64_t h, uint64_t v) { h = (h ^ v) * 0xff51afd7ed558ccdull; h ^= h >> 33; h *= 0xc4ceb9fe1a85ec53ull; h ^= h >> 29; return h; }

/* ---- shared with the explorer (parent) ---- */
typedef struct { uint8_t nthr, nspur, self, pick; uint64_t state; } choice_t;
typedef struct {
    int nprefix; uint8_t prefix[MAXCH];
    int nch; choice_t ch[MAXCH];
    int nstep; struct { uint8_t t, op; int16_t obj; } step[MAXSTEP];
    int status;                 /* 0 running/ok, 1 violation, 2 internal (divergence) */
    int finished;
    char rule[64], sig[160], detail[500];
    uint64_t obs;
    int verbose;
    int allow_spurious;
} shm_t;
static shm_t *S;

/* ---- futex baton ---- */
static void fwait(volatile int *f) {
    while (__atomic_load_n(f, __ATOMIC_ACQUIRE) == 0) syscall(SYS_futex, f, FUTEX_WAIT, 0, NULL, NULL, 0);
    __atomic_store_n(f, 0, __ATOMIC_RELEASE);
}
static void fwake(volatile int *f) { __atomic_store_n(f, 1, __ATOMIC_RELEASE); syscall(SYS_futex, f, FUTEX_WAKE, 1, NULL, NULL, 0); }

int sch_self(void) { return cur; }
long sch_clock(void) { return ++step_clock; }
int sch_active(void) { return active; }
void sch_obs(uint64_t v) { if (!S) return; S->obs = (S->obs ^ v) * 0x100000001B3ull; S->obs ^= S->obs >> 31; if (active) T[cur].hb = hbmix(T[cur].hb, v + 0x5151); }
void sch_obs_thread(uint64_t v) { thr_t *t = &T[cur]; t->obs = (t->obs ^ v) * 0x100000001B3ull; t->obs ^= t->obs >> 29; t->hb = hbmix(t->hb, v + 0x7171); }

void sch_fail(const char *rule, const char *sig, const char *fmt, ...) {
    va_list ap; va_start(ap, fmt);
    if (S && !S->status) {
        snprintf(S->rule, sizeof S->rule, "%s", rule); snprintf(S->sig, sizeof S->sig, "%s", sig);
        vsnprintf(S->detail, sizeof S->detail, fmt, ap);
        S->status = strcmp(rule, "INTERNAL.divergence") ? 1 : 2;
    }
    va_end(ap);
    if (S && S->verbose) fprintf(stderr, "VIOLATION %s: %s\n", S->rule, S->detail);
    _exit(S && S->status == 2 ? 4 : 1);
}

static int find_m(void *a, int create) {
    for (int i = 0; i < nM; i++) if (M[i].addr == a && !M[i].destroyed) return i;
    for (int i = 0; i < nM; i++) if (M[i].addr == a) {
        if (create) { M[i].destroyed = 0; M[i].owner = -1; return i; }
        sch_fail("SCH.use-after-destroy", "SCH.use-after-destroy|mutex", "thread T%d operates on mutex m%d after it was destroyed", cur, i);
    }
    if (nM >= MAXM) sch_fail("INTERNAL", "INTERNAL", "too many mutexes");
    M[nM].addr = a; M[nM].owner = -1; M[nM].destroyed = 0; return nM++;     /* statically initialised or first use */
}
static int find_c(void *a, int create) {
    for (int i = 0; i < nC; i++) if (C[i].addr == a && !C[i].destroyed) return i;
    for (int i = 0; i < nC; i++) if (C[i].addr == a) {
        if (create) { C[i].destroyed = 0; C[i].nwait = 0; return i; }
        sch_fail("SCH.use-after-destroy", "SCH.use-after-destroy|cond", "thread T%d operates on condition c%d after it was destroyed", cur, i);
    }
    if (nC >= MAXC) sch_fail("INTERNAL", "INTERNAL", "too many conditions");
    C[nC].addr = a; C[nC].nwait = 0; C[nC].destroyed = 0; return nC++;
}

static int enabled(int t) {
    if (T[t].st != ST_READY) return 0;
    switch (T[t].op) {
    case OP_LOCK: case OP_RELOCK: return M[T[t].obj].destroyed ? 1 : M[T[t].obj].owner < 0;   /* destroyed: let it run into the use-after-destroy report */
    case OP_JOIN: return T[T[t].obj].st == ST_DONE;
    case OP_FINAL: return 0;
    default: return 1;
    }
}

static uint64_t state_hash(void) {
    uint64_t h = 0xcbf29ce484222325ull;
#define MIX(v) do { h = (h ^ (uint64_t)(v)) * 0x100000001B3ull; h ^= h >> 32; } while (0)
    for (int i = 0; i < nT; i++) { MIX(T[i].st); MIX(T[i].op); MIX(T[i].obj); MIX(T[i].hb); }
    for (int i = 0; i < nM; i++) { MIX(M[i].owner + 2); MIX(M[i].destroyed); MIX(M[i].rel_hb); }
    for (int i = 0; i < nC; i++) { MIX(C[i].destroyed); for (int k = 0; k < C[i].nwait; k++) MIX(C[i].waiters[k] + 100); }
    MIX(cur);
    return h;
}

static void log_step(int t) {
    if (S->nstep < MAXSTEP) { S->step[S->nstep].t = t; S->step[S->nstep].op = T[t].op; S->step[S->nstep].obj = T[t].obj; S->nstep++; }
    if (S->verbose) fprintf(stderr, "  step %4d: T%d %s(%d)\n", S->nstep, t, opname[T[t].op], T[t].obj);
}

static int choose(int nthr, int nspur, int self) {
    int n = nthr + nspur, pick = 0;
    if (n <= 1) return 0;
    int k = S->nch;
    if (k >= MAXCH) sch_fail("INTERNAL", "INTERNAL", "too many choice points (livelock?)");
    if (k < S->nprefix) { pick = S->prefix[k]; if (pick >= n) sch_fail("INTERNAL.divergence", "INTERNAL.divergence", "replay divergence at choice %d: pick %d of %d", k, pick, n); }
    S->ch[k].nthr = nthr; S->ch[k].nspur = nspur; S->ch[k].self = self; S->ch[k].pick = pick; S->ch[k].state = state_hash();
    S->nch = k + 1;
    return pick;
}

/* called by the running thread after it published its pending operation (or finished) */
static void schedule(void) {
    int me = cur;
    for (;;) {
        int opt[MAXT], nthr = 0, self = 0, spur[MAXT], nspur = 0;
        int passing = T[me].st == ST_READY && T[me].op == OP_PASS;      /* polling loop: everybody else first, and leaving it is no preemption */
        if (!passing && T[me].st == ST_READY && enabled(me)) { opt[nthr++] = me; self = 1; }
        for (int i = 0; i < nT; i++) if (i != me && enabled(i) && T[i].op != OP_PASS) opt[nthr++] = i;
        /* fairness: threads that poll (OP_PASS) are only offered when no thread that makes progress is runnable */
        if (nthr == 0 || (nthr == 1 && self)) for (int i = 0; i < nT; i++) if (i != me && enabled(i) && T[i].op == OP_PASS) opt[nthr++] = i;
        if (passing && nthr == 0) opt[nthr++] = me;
        if (nthr == 0) {
            /* nobody can run */
            int alldone = 1, stuck = -1;
            for (int i = 1; i < nT; i++) if (T[i].st != ST_DONE && T[i].st != ST_UNUSED) { alldone = 0; stuck = i; }
            if (T[0].st == ST_READY && T[0].op == OP_FINAL) {
                if (!alldone) {
                    if (T[stuck].st == ST_WAITCOND) sch_fail("SCH.parked", T[stuck].detached ? "SCH.parked|detached" : "SCH.parked|joinable", "at quiescence thread T%d is still parked in cond_wait(c%d) forever (it would touch the object later / lost wake-up)", stuck, T[stuck].obj);
                    sch_fail("SCH.deadlock", "SCH.deadlock|final", "at quiescence thread T%d is blocked forever in %s(%d)", stuck, opname[T[stuck].op], T[stuck].obj);
                }
                /* quiescent: hand the baton to main for the final oracle */
                if (me != 0) { cur = 0; fwake(&T[0].go); if (T[me].st != ST_DONE) fwait(&T[me].go); }
                return;
            }
            char buf[300]; int p = 0;
            for (int i = 0; i < nT; i++) if (T[i].st != ST_DONE && T[i].st != ST_UNUSED) p += snprintf(buf + p, sizeof buf - p, " T%d:%s(%d)", i, T[i].st == ST_WAITCOND ? "waiting-on-cond" : opname[T[i].op], T[i].obj);
            sch_fail("SCH.deadlock", "SCH.deadlock", "no thread can make progress:%s", buf);
        }
        if (S->allow_spurious) for (int i = 0; i < nT; i++) if (T[i].st == ST_WAITCOND) spur[nspur++] = i;
        int pick = choose(nthr, nspur, self);
        if (pick >= nthr) {         /* spurious wake-up of a condition waiter (deviation) */
            int t = spur[pick - nthr], c = T[t].obj;
            int m = -1;
            for (int k = 0; k < C[c].nwait; k++) if (C[c].waiters[k] == t) { m = C[c].wmutex[k]; C[c].waiters[k] = C[c].waiters[C[c].nwait - 1]; C[c].wmutex[k] = C[c].wmutex[C[c].nwait - 1]; C[c].nwait--; break; }
            T[t].st = ST_READY; T[t].op = OP_RELOCK; T[t].obj = m; T[t].wake_hb = 0x5b5b;
            if (S->verbose) fprintf(stderr, "  spurious wake-up of T%d\n", t);
            continue;
        }
        int next = opt[pick];
        log_step(next);
        T[next].nops++;
        T[next].hb = hbmix(T[next].hb, (uint64_t)T[next].op * 131 + (uint64_t)(T[next].obj + 7));
        if (next != me) { cur = next; fwake(&T[next].go); if (T[me].st != ST_DONE) fwait(&T[me].go); }
        return;
    }
}

static void point(int op, int obj) {
    T[cur].st = ST_READY; T[cur].op = op; T[cur].obj = obj;
    schedule();
}

/* ---- wrapped pthread API ---- */
int __wrap_pthread_mutex_init(pthread_mutex_t *m, const pthread_mutexattr_t *a) {
    if (!active) return __real_pthread_mutex_init(m, a);
    int i = find_m(m, 1); M[i].owner = -1; return 0;
}
int __wrap_pthread_mutex_destroy(pthread_mutex_t *m) {
    if (!active) return __real_pthread_mutex_destroy(m);
    int i = find_m(m, 0); point(OP_MDESTROY, i);
    if (M[i].owner >= 0) sch_fail("SCH.destroy-busy", "SCH.destroy-busy|mutex", "T%d destroys mutex m%d while T%d holds it", cur, i, M[i].owner);
    for (int t = 0; t < nT; t++) if (t != cur && T[t].st == ST_READY && (T[t].op == OP_LOCK || T[t].op == OP_RELOCK) && T[t].obj == i)
        sch_fail("SCH.destroy-busy", "SCH.destroy-busy|mutex-wanted", "T%d destroys mutex m%d while T%d is about to lock it", cur, i, t);
    M[i].destroyed = 1; return 0;
}
int __wrap_pthread_mutex_lock(pthread_mutex_t *m) {
    if (!active) return __real_pthread_mutex_lock(m);
    int i = find_m(m, 0);
    if (M[i].owner == cur) sch_fail("SCH.relock", "SCH.relock", "T%d locks mutex m%d it already holds", cur, i);
    point(OP_LOCK, i);
    if (M[i].destroyed) sch_fail("SCH.use-after-destroy", "SCH.use-after-destroy|mutex", "thread T%d locks mutex m%d after it was destroyed", cur, i);
    M[i].owner = cur; T[cur].hb = hbmix(T[cur].hb, M[i].rel_hb); TSAN_ACQ(m); return 0;
}
int __wrap_pthread_mutex_trylock(pthread_mutex_t *m) {
    if (!active) return __real_pthread_mutex_trylock(m);
    int i = find_m(m, 0); point(OP_YIELD, i);
    if (M[i].owner >= 0) return EBUSY;
    M[i].owner = cur; T[cur].hb = hbmix(T[cur].hb, M[i].rel_hb); TSAN_ACQ(m); return 0;
}
int __wrap_pthread_mutex_unlock(pthread_mutex_t *m) {
    if (!active) return __real_pthread_mutex_unlock(m);
    int i = find_m(m, 0);
    if (M[i].owner != cur) sch_fail("SCH.unlock-foreign", "SCH.unlock-foreign", "T%d unlocks mutex m%d owned by T%d", cur, i, M[i].owner);
    TSAN_REL(m); M[i].owner = -1; M[i].rel_hb = T[cur].hb;
    point(OP_UNLOCKED, i);          /* scheduling point right after the release */
    return 0;
}
int __wrap_pthread_cond_init(pthread_cond_t *c, const pthread_condattr_t *a) { if (!active) return __real_pthread_cond_init(c, a); find_c(c, 1); return 0; }
int __wrap_pthread_cond_destroy(pthread_cond_t *c) {
    if (!active) return __real_pthread_cond_destroy(c);
    int i = find_c(c, 0); point(OP_CDESTROY, i);
    if (C[i].nwait) sch_fail("SCH.destroy-busy", "SCH.destroy-busy|cond", "T%d destroys condition c%d while T%d waits on it", cur, i, C[i].waiters[0]);
    C[i].destroyed = 1; return 0;
}
int __wrap_pthread_cond_wait(pthread_cond_t *c, pthread_mutex_t *m) {
    if (!active) return __real_pthread_cond_wait(c, m);
    int ci = find_c(c, 0), mi = find_m(m, 0);
    if (M[mi].owner != cur) sch_fail("SCH.wait-unlocked", "SCH.wait-unlocked", "T%d waits on c%d without holding m%d", cur, ci, mi);
    point(OP_CONDWAIT, ci);
    TSAN_REL(m); M[mi].owner = -1; M[mi].rel_hb = T[cur].hb;
    C[ci].waiters[C[ci].nwait] = cur; C[ci].wmutex[C[ci].nwait] = mi; C[ci].nwait++;
    T[cur].st = ST_WAITCOND; T[cur].op = OP_CONDWAIT; T[cur].obj = ci;
    schedule();                      /* we are not enabled: runs somebody else; returns once signalled AND the mutex was free when chosen */
    if (M[mi].destroyed) sch_fail("SCH.use-after-destroy", "SCH.use-after-destroy|mutex", "thread T%d re-acquires mutex m%d after it was destroyed (woke up after the owner freed it)", cur, mi);
    if (C[ci].destroyed) sch_fail("SCH.use-after-destroy", "SCH.use-after-destroy|cond", "thread T%d returns from a wait on condition c%d that was destroyed meanwhile", cur, ci);
    M[mi].owner = cur; T[cur].hb = hbmix(hbmix(T[cur].hb, T[cur].wake_hb), M[mi].rel_hb); TSAN_ACQ(m);
    return 0;
}
int __wrap_pthread_cond_timedwait(pthread_cond_t *c, pthread_mutex_t *m, const struct timespec *ts) { (void)ts; return __wrap_pthread_cond_wait(c, m); }
static void wake_waiter(int ci, int k) {
    int t = C[ci].waiters[k], m = C[ci].wmutex[k];
    C[ci].waiters[k] = C[ci].waiters[C[ci].nwait - 1]; C[ci].wmutex[k] = C[ci].wmutex[C[ci].nwait - 1]; C[ci].nwait--;
    T[t].st = ST_READY; T[t].op = OP_RELOCK; T[t].obj = m; T[t].wake_hb = T[cur].hb;
}
int __wrap_pthread_cond_signal(pthread_cond_t *c) {
    if (!active) return __real_pthread_cond_signal(c);
    int ci = find_c(c, 0); point(OP_SIGNAL, ci);
    if (C[ci].destroyed) sch_fail("SCH.use-after-destroy", "SCH.use-after-destroy|cond", "T%d signals destroyed condition c%d", cur, ci);
    if (C[ci].nwait) {
        /* POSIX lets any waiter be woken: enumerated.  Sort waiters by id first (canonical order). */
        for (int a = 0; a < C[ci].nwait; a++) for (int b = a + 1; b < C[ci].nwait; b++) if (C[ci].waiters[b] < C[ci].waiters[a]) {
            int t = C[ci].waiters[a]; C[ci].waiters[a] = C[ci].waiters[b]; C[ci].waiters[b] = t; t = C[ci].wmutex[a]; C[ci].wmutex[a] = C[ci].wmutex[b]; C[ci].wmutex[b] = t; }
        int k = C[ci].nwait > 1 ? choose(C[ci].nwait, 0, 0) : 0;
        wake_waiter(ci, k);
    }
    return 0;
}
int __wrap_pthread_cond_broadcast(pthread_cond_t *c) {
    if (!active) return __real_pthread_cond_broadcast(c);
    int ci = find_c(c, 0); point(OP_BROADCAST, ci);
    if (C[ci].destroyed) sch_fail("SCH.use-after-destroy", "SCH.use-after-destroy|cond", "T%d broadcasts destroyed condition c%d", cur, ci);
    while (C[ci].nwait) wake_waiter(ci, 0);
    return 0;
}

static void *tramp(void *p) {
    int id = (int)(intptr_t)p;
    fwait(&T[id].go);                /* first scheduled */
    void *r = T[id].fn(T[id].arg);
    T[id].st = ST_DONE; T[id].op = OP_NONE;
    schedule();                      /* pass the baton on; we do not wait */
    return r;
}
int sch_create_fail_nth;               /* deviation set by the harness: the n-th pthread_create of an execution (1-based) fails with EAGAIN; 0 = never */
static int ncreate;
int __wrap_pthread_create(pthread_t *th, const pthread_attr_t *attr, void *(*fn)(void *), void *arg) {
    if (!active) return __real_pthread_create(th, attr, fn, arg);
    point(OP_CREATE, nT);
    if (++ncreate == sch_create_fail_nth) { T[cur].hb = hbmix(T[cur].hb, 0xfa11); return EAGAIN; }
    if (nT >= MAXT) sch_fail("INTERNAL", "INTERNAL", "too many threads");
    int id = nT;
    memset(&T[id], 0, sizeof T[id]);
    T[id].fn = fn; T[id].arg = arg; T[id].st = ST_READY; T[id].op = OP_START; T[id].obj = 0;
    int ds = PTHREAD_CREATE_JOINABLE; if (attr) pthread_attr_getdetachstate(attr, &ds);
    T[id].detached = ds == PTHREAD_CREATE_DETACHED;
    T[id].hb = hbmix(T[cur].hb, 0xc0de + id);
    nT++;
    int rc = __real_pthread_create(th, attr, tramp, (void *)(intptr_t)id);
    if (rc) sch_fail("INTERNAL", "INTERNAL", "real pthread_create failed: %d", rc);
    T[id].real = *th;
    return 0;
}
int __wrap_pthread_join(pthread_t th, void **ret) {
    if (!active) return __real_pthread_join(th, ret);
    int id = -1; for (int i = 1; i < nT; i++) if (pthread_equal(T[i].real, th)) id = i;
    if (id < 0) sch_fail("SCH.join", "SCH.join|unknown", "T%d joins an unknown thread", cur);
    if (T[id].detached) sch_fail("SCH.join", "SCH.join|detached", "T%d joins detached thread T%d", cur, id);
    point(OP_JOIN, id);
    T[cur].hb = hbmix(T[cur].hb, T[id].hb);
    return __real_pthread_join(th, ret);
}
void sch_yield(void) { if (active) point(OP_YIELD, 0); }
void sch_pass(void) { if (active) point(OP_PASS, 0); }

/* ---- one execution (child process) ---- */
static void child_run(void) {
    memset(T, 0, sizeof T); nT = 1; nM = 0; nC = 0; cur = 0; step_clock = 0; ncreate = 0;
    T[0].st = ST_READY; T[0].op = OP_START;
    active = 1;
    hx_main();
    point(OP_FINAL, 0);              /* returns at quiescence */
    active = 0;
    hx_final();
    S->finished = 1;
    _exit(0);
}

/* ================= explorer (parent) ================= */
static double now(void) { struct timespec t; clock_gettime(CLOCK_MONOTONIC, &t); return t.tv_sec + t.tv_nsec / 1e9; }
typedef struct { uint64_t *v; size_t cap, n; } hset;
static int hset_add(hset *s, uint64_t k) {
    if (!k) k = 1;
    if (s->n * 2 >= s->cap) { size_t nc = s->cap ? s->cap * 2 : 1 << 14; uint64_t *nv = calloc(nc, 8); for (size_t i = 0; i < s->cap; i++) if (s->v[i]) { size_t j = s->v[i] & (nc - 1); while (nv[j]) j = (j + 1) & (nc - 1); nv[j] = s->v[i]; } free(s->v); s->v = nv; s->cap = nc; }
    size_t j = k & (s->cap - 1); while (s->v[j]) { if (s->v[j] == k) return 0; j = (j + 1) & (s->cap - 1); }
    s->v[j] = k; s->n++; return 1;
}
static hset states, outcomes;
static int W = 1, Wid = 0, budget_pre = 2, budget_spur = 0, prune = 0;
static hset expanded; static long n_pruned;
static long n_exec, n_steps, n_viol, task_ctr, n_points;
static int capped; static double deadline;
static int max_viol = 12;
static FILE *out;                       /* worker result stream */
static int sample_n; static char samples[4][400];

static void json_str(FILE *f, const char *s) { fputc('"', f); for (; *s; s++) { unsigned char c = *s; if (c == '"' || c == '\\') { fputc('\\', f); fputc(c, f); } else if (c < 0x20) fprintf(f, " "); else fputc(c, f); } fputc('"', f); }

static void fmt_schedule(char *buf, size_t cap) {
    size_t p = 0; int lastt = -1;
    for (int i = 0; i < S->nstep && p + 40 < cap; i++) {
        if (S->step[i].t != lastt) { p += snprintf(buf + p, cap - p, "%sT%d:", i ? " | " : "", S->step[i].t); lastt = S->step[i].t; }
        p += snprintf(buf + p, cap - p, " %s(%d)", opname[S->step[i].op], S->step[i].obj);
    }
    if (p + 40 >= cap) snprintf(buf + p, cap - p, " ...");
}
static void choices_csv(char *buf, size_t cap, int n) { size_t p = 0; buf[0] = 0; for (int i = 0; i < n && p + 5 < cap; i++) p += snprintf(buf + p, cap - p, "%s%d", i ? "," : "", S->ch[i].pick); }

/* run one execution with the given prefix; returns 0 ok, 1 violation */
static int run_exec(const uint8_t *prefix, int np, int report) {
    int count_this = report;
    S->nprefix = np; memcpy(S->prefix, prefix, np);
    S->nch = 0; S->nstep = 0; S->status = 0; S->finished = 0; S->obs = 0x9e37; S->rule[0] = S->sig[0] = S->detail[0] = 0;
    fflush(NULL);
    pid_t pid = fork();
    if (pid == 0) { alarm(20); child_run(); _exit(0); }
    int st = 0; waitpid(pid, &st, 0);
    n_exec++; n_steps += S->nstep; n_points += S->nch;
    if (count_this) for (int i = 0; i < S->nch; i++) hset_add(&states, S->ch[i].state);
    int bad = 0;
    if (S->status == 2) { bad = 1; }
    else if (S->status == 1) bad = 1;
    else if (!(WIFEXITED(st) && WEXITSTATUS(st) == 0 && S->finished)) {
        bad = 1;
        if (WIFSIGNALED(st) && WTERMSIG(st) == SIGALRM) { snprintf(S->rule, sizeof S->rule, "SCH.hang"); snprintf(S->sig, sizeof S->sig, "SCH.hang"); snprintf(S->detail, sizeof S->detail, "execution did not finish within 20 s (livelock or real blocking call)"); }
        else {
            int code = WIFEXITED(st) ? WEXITSTATUS(st) : -WTERMSIG(st);
            const char *what = code == 97 ? "AddressSanitizer" : code == 66 ? "ThreadSanitizer" : code == 98 ? "UBSan" : "crash";
            snprintf(S->rule, sizeof S->rule, "CR.san"); snprintf(S->sig, sizeof S->sig, "CR.san|%s", what);
            snprintf(S->detail, sizeof S->detail, "%s report / abnormal exit (%d) on this schedule", what, code);
        }
    }
    if (count_this) hset_add(&outcomes, S->obs ^ (bad ? 0xbad : 0));
    if (!bad && sample_n < 4 && (n_exec % 37 == 1)) { fmt_schedule(samples[sample_n], sizeof samples[0]); sample_n++; }
    if (bad && report) {
        static char sched[5000], csv[3 * MAXCH];
        fmt_schedule(sched, sizeof sched); choices_csv(csv, sizeof csv, S->nch);
        fprintf(out, "VIOL {\"harness\":"); json_str(out, hx_name); fprintf(out, ",\"config\":"); json_str(out, hx_config_str());
        fprintf(out, ",\"rule\":"); json_str(out, S->rule); fprintf(out, ",\"sig\":"); json_str(out, S->sig);
        fprintf(out, ",\"detail\":"); json_str(out, S->detail); fprintf(out, ",\"hex\":\"%s\",\"schedule\":", csv); json_str(out, sched);
        fprintf(out, ",\"choice_points\":%d}\n", S->nch); fflush(out);
        n_viol++;
    }
    return bad;
}

/* iterative context bounding: recursion level = number of deviations from the default schedule */
static void explore(const uint8_t *prefix, int np, int pre_used, int spur_used, int level) {
    if (capped) return;
    int mine = 1;
    if (level == 2) { long id = task_ctr++; if (id % W != Wid) return; }
    if (level < 2 && Wid != 0) mine = 0;        /* levels 0,1 are replicated in every worker; counted/reported by worker 0 only */
    if (now() > deadline) { capped = 1; return; }
    if (n_viol >= max_viol) { capped = 2; return; }
    long e0 = n_exec, s0 = n_steps, p0 = n_points;
    int bad = run_exec(prefix, np, mine);
    if (!mine) { n_exec = e0; n_steps = s0; n_points = p0; }
    if (bad) return;
    int nch = S->nch;
    choice_t *ch = malloc(sizeof(choice_t) * (nch + 1)); memcpy(ch, S->ch, sizeof(choice_t) * nch);
    uint8_t *pf = malloc(nch + 1);
    for (int i = 0; i < nch; i++) pf[i] = ch[i].pick;
    for (int i = np; i < nch && !capped; i++) {
        int n = ch[i].nthr + ch[i].nspur;
        /* state-based pruning: alternatives out of an identical (state, budgets used) were already enumerated */
        if (prune && !hset_add(&expanded, hbmix(hbmix(ch[i].state, 1000 + pre_used), 2000 + spur_used))) { n_pruned++; continue; }
        for (int alt = 1; alt < n && !capped; alt++) {
            int pu = pre_used, su = spur_used;
            if (alt < ch[i].nthr) { if (ch[i].self) pu++; }       /* switching away from a runnable thread = preemption */
            else su++;                                             /* spurious wake-up */
            if (pu > budget_pre || su > budget_spur) continue;
            uint8_t save = pf[i]; pf[i] = alt;
            explore(pf, i + 1, pu, su, level + 1);
            pf[i] = save;
        }
    }
    free(ch); free(pf);
}

static int parse_csv(const char *s, uint8_t *out_, int cap) { int n = 0; while (*s && n < cap) { out_[n++] = (uint8_t)strtol(s, (char **)&s, 10); if (*s == ',') s++; } return n; }

int sch_main(int argc, char **argv) {
    double dl = 120; const char *replay = NULL; int verbose = 0;
    W = 16;
    for (int i = 1; i < argc; i++) {
        if (!strcmp(argv[i], "--budget") && i + 1 < argc) budget_pre = atoi(argv[++i]);
        else if (!strcmp(argv[i], "--spurious") && i + 1 < argc) budget_spur = atoi(argv[++i]);
        else if (!strcmp(argv[i], "--workers") && i + 1 < argc) W = atoi(argv[++i]);
        else if (!strcmp(argv[i], "--deadline") && i + 1 < argc) dl = atof(argv[++i]);
        else if (!strcmp(argv[i], "--replay") && i + 1 < argc) replay = argv[++i];
        else if (!strcmp(argv[i], "--prune") && i + 1 < argc) prune = atoi(argv[++i]);
        else if (!strcmp(argv[i], "--verbose")) verbose = 1;
    }
    hx_config(argc, argv);
    if (replay) {
        S = mmap(NULL, sizeof(shm_t), PROT_READ | PROT_WRITE, MAP_SHARED | MAP_ANONYMOUS, -1, 0);
        S->verbose = verbose; S->allow_spurious = 1;
        static uint8_t pf[MAXCH]; int np = parse_csv(replay, pf, MAXCH);
        out = stdout; W = 1; Wid = 0;
        int bad = run_exec(pf, np, 1);
        printf("REPLAY %s\n", bad ? "VIOLATION" : "ok");
        return bad;
    }
    double t0 = now(); deadline = t0 + dl;
    /* workers */
    int fds[64][2]; pid_t pids[64]; if (W > 64) W = 64;
    char tmpl[64];
    for (int w = 0; w < W; w++) {
        if (pipe(fds[w])) { perror("pipe"); return 3; }
        fflush(NULL);
        pids[w] = fork();
        if (pids[w] == 0) {
            for (int k = 0; k <= w; k++) close(fds[k][0]);
            Wid = w; out = fdopen(fds[w][1], "w");
            S = mmap(NULL, sizeof(shm_t), PROT_READ | PROT_WRITE, MAP_SHARED | MAP_ANONYMOUS, -1, 0);
            S->allow_spurious = budget_spur > 0;
            uint8_t none[1];
            explore(none, 0, 0, 0, 0);
            fprintf(out, "WSTAT %ld %ld %ld %ld %d %zu\n", n_exec, n_steps, n_points, n_viol, capped, outcomes.n);
            for (size_t i = 0; i < states.cap; i++) if (states.v[i]) fprintf(out, "H %llx\n", (unsigned long long)states.v[i]);
            for (size_t i = 0; i < outcomes.cap; i++) if (outcomes.v[i]) fprintf(out, "O %llx\n", (unsigned long long)outcomes.v[i]);
            fprintf(out, "PRUNED %ld\n", n_pruned);
            for (int i = 0; i < sample_n; i++) { fprintf(out, "SAMPLE "); json_str(out, samples[i]); fprintf(out, "\n"); }
            fclose(out);
            _exit(0);
        }
        close(fds[w][1]);
    }
    (void)tmpl;
    long te = 0, ts = 0, tp = 0, tv = 0, tpr = 0; int anycap = 0; size_t tout = 0; hset all = {0}, allout = {0}; uint64_t outset = 0;
    char sm[6][420]; int nsm = 0;
    for (int w = 0; w < W; w++) {
        FILE *f = fdopen(fds[w][0], "r"); static char line[12000];
        while (fgets(line, sizeof line, f)) {
            if (!strncmp(line, "VIOL ", 5)) { fputs(line, stdout); tv++; }
            else if (!strncmp(line, "WSTAT ", 6)) { long a, b, c, d; int cp; size_t o; if (sscanf(line + 6, "%ld %ld %ld %ld %d %zu", &a, &b, &c, &d, &cp, &o) == 6) { te += a; ts += b; tp += c; if (cp) anycap = cp; tout += o; } }
            else if (line[0] == 'H') hset_add(&all, strtoull(line + 2, NULL, 16));
            else if (line[0] == 'O') { uint64_t o = strtoull(line + 2, NULL, 16); if (hset_add(&allout, o)) outset += hbmix(o, 99); }
            else if (!strncmp(line, "PRUNED ", 7)) tpr += atol(line + 7);
            else if (!strncmp(line, "SAMPLE ", 7) && nsm < 6) { snprintf(sm[nsm], sizeof sm[0], "%s", line + 7); sm[nsm][strcspn(sm[nsm], "\n")] = 0; nsm++; }
        }
        fclose(f);
        int st; waitpid(pids[w], &st, 0);
        if (!(WIFEXITED(st) && WEXITSTATUS(st) == 0)) { anycap = 9; fprintf(stderr, "worker %d died (%d)\n", w, st); }
    }
    printf("STAT {\"harness\":"); json_str(stdout, hx_name); printf(",\"config\":"); json_str(stdout, hx_config_str());
    printf(",\"states\":%zu,\"transitions\":%ld,\"executions\":%ld,\"choice_points\":%ld,\"distinct_outcomes\":%zu,\"outcome_set\":\"%llx\",\"pruned_points\":%ld,\"prune\":%d,\"violations\":%ld,"
           "\"preemption_budget\":%d,\"spurious_budget\":%d,\"bound_complete\":%s,\"capped\":%d,\"workers\":%d,\"wall_s\":%.2f,\"samples\":[",
           all.n, ts, te, tp, allout.n, (unsigned long long)outset, tpr, prune, tv, budget_pre, budget_spur, anycap ? "false" : "true", anycap, W, now() - t0);
    for (int i = 0; i < nsm; i++) printf("%s%s", i ? "," : "", sm[i]);
    printf("]}\n");
    return tv ? 1 : 0;
}
