"""Per-property texts for MANIFEST.json."""
HOOK_COMMITS = []
NOTES = ('All checks are bounded exhaustive explorations of the real library code (see DESIGN.md). '
         'known_findings.txt lists genuine defects (known: suppressed by signature; fixed: repaired in /repo, suppress nothing).')

_PENDING = 'check under construction in this session (harness not registered yet); see DESIGN.md section 6'
NOT_APPLICABLE = {('C%02d' % i): _PENDING for i in range(1, 21)}

META = {}
META['C10'] = dict(
    engine='seqx-inproc', design_ref='6/C10',
    technique='explicit-state BFS over operation histories on the real m_mem_* code with a counting reference monitor; exhaustive size enumeration 0..4096',
    level_text='Every history of new/ref/unref/unrefp/size/NULL calls on a population of 3 blocks (<=3 user references each, destructors that drop other blocks) is executed '
               'against the real allocator-backed implementation up to the BFS fixpoint, and every size 0..4096 is created, checked for alignment, zero fill, size, writability and '
               'exactly-once destruction. The monitor checks destructor/free timing and count on every step.',
    level_note='Bounded: 3 blocks, 3 user references; allocator observed via memhook; sanitizer (ASan/UBSan) build of Lib/mem is the memory-safety oracle.')

META['C12'] = dict(
    engine='seqx-inproc', design_ref='6/C12',
    technique='explicit-state BFS to fixpoint over operation histories on the real queue/stack/list code with an array reference monitor and probe suffixes',
    level_text='All histories over the complete API of queue, stack and list (with/without destructor, list with/without comparator) with at most 4 (thorough: 5) elements '
               'and one live iterator are enumerated to the fixpoint of the (monitor state, last-k-ops) key; after every transition the whole container is compared with the '
               'array monitor (order, length, destructor log) and four probe suffixes check that the container keeps working (drain, clear+reuse, remove-all pass, free + allocator audit).',
    level_note='Bounded element count; iterator semantics = cursor position in the array (as the repository tests use it); external mutation during iteration not generated.')

META['C11'] = dict(
    engine='seqx-inproc', design_ref='6/C11',
    technique='explicit-state BFS over operation histories on the real m_bst_* code, tree shape in the state key, sorted-set reference monitor, probe suffixes',
    level_text='All histories of insert/remove/iterator/clear over 5 (thorough: 7) keys are enumerated (all insertion orders yielding distinct trees, every removal and iterator-removal position), '
               'with user comparator (including equal-but-distinct objects) and default pointer comparator (pointers more than 2^31 and 2^32 apart), with and without destructor. '
               'After every operation the complete observable state is compared with a sorted-set monitor.',
    level_note='Bounded key count; comparator order for pointers checked on a fixed adversarial menu of 8 values.')

META['C05'] = dict(
    engine='seqx-inproc', design_ref='6/C05',
    technique='explicit-state BFS over operation histories on the real m_map_* code (8-slot table via guarded hook, and default size) with a dictionary reference monitor, allocator ledger and probe suffixes',
    level_text='All histories of put/remove/iterate/iterator/clear over 7 (thorough: 10) keys in an 8-slot table - which forces collisions, shared home slots, clusters that wrap the table end and table growth - '
               'are enumerated up to the stated depth for six flag combinations with and without destructor, and again at the default table size. After every operation the whole observable '
               'state (len, get/contains of every key, a full callback iteration, destructor log, outstanding allocations incl. duplicated keys) is compared with the monitor.',
    level_note='Depth-bounded (not a fixpoint): layouts needing longer histories are not reached. The tiny table needs the guarded hook LIBMODULE_VERIF_MAP_SIZE.')
HOOK_COMMITS.append('476a627')

META['C06'] = dict(
    engine='schedx', design_ref='4, 6/C06',
    technique='stateless model checking of the real thread pool: serialising scheduler over wrapped pthread operations, preemption-bounded exhaustive schedule enumeration (iterative context bounding) with happens-before state pruning; ASan and TSan as per-schedule oracles',
    level_text='For every small pool configuration (1-2 threads x 1-2 tasks, thorough 3x3; eager/LAZY/DETACHED/LAZY|DETACHED; wait_all on/off; main or two concurrent submitter threads; a task submitting to its own pool) '
               'every schedule of the real worker/submitter/free code at lock/unlock/cond/create/join/yield granularity within the preemption budget (2, thorough 3; +1 spurious wake-up) is executed; '
               'each execution is judged by task counters, free-return obligations, scheduler verdicts (deadlock, parked thread, use of a destroyed mutex/condition) and ASan; a TSan build of the same harness reports data races on each enumerated schedule.',
    level_note='Sequentially consistent interleavings; C11 atomics and plain memory accesses are not scheduling points (races on them are left to TSan); pthread primitives are modelled by the scheduler, not glibc.')

_WT = ('explicit-state BFS over API/callback/environment histories of the real core library (fresh world per execution, link-time shim: virtual clock, '
       'timers as clock-driven eventfds, fd ledger, fault injection), reference monitor evaluated on every step, probe suffixes (drain + obligations, teardown + ledgers) on every new state')
_WN = ('Bounded: 2-3 modules, stated BFS depth and deviation budget (armed re-entrant callback actions, injected faults); state = canonical monitor state + last k ops. '
       'Real kernel pipes/epoll; time is virtual. Cross-module order is never assumed. ASan/UBSan build; allocator and descriptor ledgers are exact per execution.')
_WORLD_TXT = {
 'C01': 'Lifecycle histories (register with every eval/start callback behaviour, start/pause/resume/stop/deregister legal and illegal in every state, poison pill, tell, dispatch, quit, re-entrant stop/deregister/pause/quit/tell armed inside on_eval/on_start/on_stop/on_evt) are enumerated; the monitor checks documented edges, refusals without effect, callback pairing, no handler unless RUNNING, evaluation passes (every IDLE module with absent/true eval is started whatever other evals return) and the running-module count after every call.',
 'C02': 'Populations in every state mix, literal/regex subscriptions, tell/publish/broadcast with and without AUTOFREE, pause/resume/stop/deregister/unsubscribe of recipients, loop steps, quit and loop end, injected full mailbox: the monitor computes the eligible set at send time, matches every delivery against a pending message (sender, topic, payload pointer, system flag), checks obligations at quiescence and loop end, discards, and exactly-once release of auto-free payloads through the allocator ledger. Fixed capacity runs (1..9000 pending messages, plain and AUTOFREE)  exercise the real 8192-pointer pipe. One-shot subscriptions (profile C02O): used up by the first message sent under them - whether the receive loop or the final flush hands it over - and only that subscription object.',
 'C03': 'Descriptor and timer sources plus messages on two modules, every subset/order of ready sources per poll (by interleaving make-readable/advance with dispatch), quit/stop/pause armed in handlers, errno left behind by handlers, injected EINTR/EBADF: every readiness must reach its owner once with the registration user pointer, one-shot sources fire once and disappear, the dispatch-driven loop returns only for stated reasons with the requested code. A second, in-process part enumerates every program of <=4 environment/user steps x <=1 scripted handler reaction and runs each through the blocking m_ctx_loop() (environment acting inside the blocking poll) and through m_ctx_dispatch(): deliveries, stop callbacks and return code must be identical.',
 'C04': 'The union alphabet of the core world (lifecycle, registration with refusing start, tell/publish/broadcast with AUTOFREE, poison pill, subscriptions, descriptor and timer sources with AUTOCLOSE/ONESHOT, stash/unstash, become, batching, user references on modules and retained events released in every order, injected full mailbox) with up to two armed re-entrant callback actions (stop/deregister/pause/unsubscribe/tell/publish/stash/unstash/retain/quit in any callback): every execution runs under ASan/UBSan with the ledger allocator, ends with the teardown probe (context deregistered, every user reference dropped) and must leave no outstanding allocation, no double/foreign free, zombies answering name/state queries while referenced. Focused profile C04F: messages and pills in flight, stop/deregister armed in the handler, quit and final flush, depth 5. Task sources in flight under every interleaving with stop/deregister/quit (schedx, ASan).',
 'C07': 'Context register/deregister/finalize/dispatch/quit interleaved with module registration, lifecycle and user references, context calls on a thread without context, deregistration armed inside callbacks: second register EEXIST, teardown stops and zombifies every module (on_stop iff RUNNING/PAUSED), looping context refuses, automatic release of non persistent contexts (idle: at once; looping: at loop stop), finalize gate, fresh register after release; allocator ledger empty after teardown. Module and context names / user data handed over with the DUP and AUTOFREE flags (ledger blocks; module names collide in the context map).',
 'C08': 'Two senders/recipients, tell/publish/broadcast/system notifications/poison pill interleaved with dispatch steps, pause/resume, batch size changes and loop stop/restart: per recipient the delivered send indices must be increasing (also inside one batch and in the final flush); a pill takes effect only after everything sent earlier and nothing sent later is delivered.',
 'C09': 'For each of seven source kinds (descriptor, timer incl. periods 1 ns..2^33+1 ns, signal, path, pid, task, threshold) and topic subscriptions: every order of register/deregister over the key menus on IDLE/RUNNING/PAUSED/STOPPED modules, bad-parameter registrations, pause/resume/stop: new key 0, present key EEXIST, remove present 0 and exactly that one, absent < 0 without effect, task deregistration refused, per-kind and total m_mod_src_len equal to the set sizes after every call. Also: M_SRC_DUP topics and paths (caller string released at once), M_SRC_AUTOFREE user data (fresh block / the block the present source owns), repeated subscription with same and other flags, a descriptor the poll set refuses; compiled regular expressions on a ledger of their own.',
 'C13': 'LOW/NORM/HIGH subscriptions, direct messages and descriptor sources, batch size 0..3 and batch timeout changes mid-stream, clock advances, pause/resume/stop: every handler invocation must end with a trigger (high priority, normal priority with the count reached, expired timeout), contain no earlier trigger, carry the accumulated events in arrival order; accumulated events containing a trigger at quiescence, or surviving an expired timeout, are violations. Profile C13B adds a token bucket on the same module (refill ticks are internal timer events; refused setters must change nothing).',
 'C15': 'All module flag sets x restricted call classes (publish/tell/pill, subscribe/unsubscribe, every context call) issued from outside and from every callback kind, duplicate names with and without ALLOW_REPLACE, PERSIST while looping, reserved topics: denied calls fail without effect, replacement zombifies the old module first.',
 'C16': 'Handlers stash the first/last/all events of an invocation (normal, high-priority attempts), unstash(1,2,3,5,SIZE_MAX) from outside and inside handlers, interleaved with deliveries, become and stop/start: unstash returns min(n, stashed), one nested invocation of the current handler with exactly the oldest events, same objects and content, at most once.',
 'C17': 'become/unbecome from outside and armed inside handlers, deliveries, stash replays, stop/start cycles: every invocation goes to the top of the monitor\'s handler stack (registration handler when empty), unbecome on empty fails, both refused unless RUNNING, stop empties the stack.',
 'C18': 'Bucket configurations (1,1) (2,1) (1,3) (1000,2) and off, reconfigurations with user timers of equal/different periods registered, token consuming calls (tell, publish, subscribe, become, source changes), virtual clock advances with dispatch: successes over every interval <= burst + rate*t, refusals are EAGAIN without effect, no refusal without a bucket, and a throttled RUNNING module can act again after one second of dispatched running time (probe).',
 'C19': 'Observers subscribed to each LIBMODULE_* topic while actors go through every transition (register with eval/start variants, start, pause, resume, stop, deregister, pill, quit, loop start/stop, tick with virtual time): one owed notification per occurrence and subscribed RUNNING/PAUSED observer with the right sender and system flag, none without occurrence (self notification optional).',
 'C20': 'Source registration/deregistration with AUTOCLOSE/DUP/ONESHOT mixes, stop / pill / refusing start / deregistration inside a handler / retained one-shot events / user references, loop runs and teardown: every close() issued by the library must hit a descriptor it opened or was granted, exactly once; after teardown no library descriptor is open; user descriptors are closed iff AUTOCLOSE (also when a present key is registered again and rejected). Profile C20T: the context tick set and cleared at top level and from callbacks, also while the loop stops.',
}
for _p, _t in _WORLD_TXT.items():
    META[_p] = dict(engine='seqx-world', design_ref='3, 5.5, 6/' + _p, technique=_WT, level_text=_t, level_note=_WN)

META['C14'] = dict(
    engine='schedx', design_ref='4, 6/C14',
    technique='stateless model checking: serialising scheduler over real threads, each running its own libmodule context program; preemption-bounded exhaustive interleaving enumeration with happens-before pruning; TSan/ASan per schedule; differential oracle against the same program run alone',
    level_text='Two (thorough: three) threads each register a context and run a program touching most of the core API (modules, pub/sub, descriptor source, batching, become, pause/resume, stats/dump/log, task source on the context thread pool, stop/deregister); '
               'every interleaving at API-call and pthread-operation granularity within the preemption budget is executed under TSan and ASan, and each context\'s observation log must equal the log of the same program run alone. '
               'A second harness operates a module from a foreign thread (holding another context, or none): all 25 module entry points must fail with a permission error and leave the owner\'s state, sources, callbacks, mailbox and module count untouched; cross-context tell/pill/lookup are refused.',
    level_note='Scheduling points are between API calls and at pthread operations only; races inside one API call are found by TSan happens-before analysis on each schedule, not by interleaving inside the call. Real time (not virtual) in this harness; no timers are used.')
