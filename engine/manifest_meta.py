"""Per-property texts for MANIFEST.json."""
HOOK_COMMITS = []
NOTES = ('All checks are bounded exhaustive explorations of the real library code (see DESIGN.md). '
         'known_findings.txt lists genuine defects (known: suppressed by signature; fixed: repaired in /repo, suppress nothing).')

_PENDING = 'check under construction in this session (harness not registered yet); see DESIGN.md section 6'
NOT_APPLICABLE = {('C%02d' % i): _PENDING for i in range(1, 21)}

META = {}
META['C10'] = dict(
    engine='seqx-inproc', design_ref='6/C10',
    technique='explicit-state BFS over operation histories on the real m_mem_* code with a counting reference monitor; exhaustive size enumeration 0..4096',
    level_text='Every history of new/ref/unref/unrefp/size/NULL calls on a population of 3 blocks (<=3 user references each, destructors that drop other blocks) is executed '
               'against the real allocator-backed implementation up to the BFS fixpoint, and every size 0..4096 is created, checked for alignment, zero fill, size, writability and '
               'exactly-once destruction. The monitor checks destructor/free timing and count on every step.',
    level_note='Bounded: 3 blocks, 3 user references; allocator observed via memhook; sanitizer (ASan/UBSan) build of Lib/mem is the memory-safety oracle.')

META['C12'] = dict(
    engine='seqx-inproc', design_ref='6/C12',
    technique='explicit-state BFS to fixpoint over operation histories on the real queue/stack/list code with an array reference monitor and probe suffixes',
    level_text='All histories over the complete API of queue, stack and list (with/without destructor, list with/without comparator) with at most 4 (thorough: 5) elements '
               'and one live iterator are enumerated to the fixpoint of the (monitor state, last-k-ops) key; after every transition the whole container is compared with the '
               'array monitor (order, length, destructor log) and four probe suffixes check that the container keeps working (drain, clear+reuse, remove-all pass, free + allocator audit).',
    level_note='Bounded element count; iterator semantics = cursor position in the array (as the repository tests use it); external mutation during iteration not generated.')

META['C11'] = dict(
    engine='seqx-inproc', design_ref='6/C11',
    technique='explicit-state BFS over operation histories on the real m_bst_* code, tree shape in the state key, sorted-set reference monitor, probe suffixes',
    level_text='All histories of insert/remove/iterator/clear over 5 (thorough: 7) keys are enumerated (all insertion orders yielding distinct trees, every removal and iterator-removal position), '
               'with user comparator (including equal-but-distinct objects) and default pointer comparator (pointers more than 2^31 and 2^32 apart), with and without destructor. '
               'After every operation the complete observable state is compared with a sorted-set monitor.',
    level_note='Bounded key count; comparator order for pointers checked on a fixed adversarial menu of 8 values.')

META['C05'] = dict(
    engine='seqx-inproc', design_ref='6/C05',
    technique='explicit-state BFS over operation histories on the real m_map_* code (8-slot table via guarded hook, and default size) with a dictionary reference monitor, allocator ledger and probe suffixes',
    level_text='All histories of put/remove/iterate/iterator/clear over 7 (thorough: 10) keys in an 8-slot table - which forces collisions, shared home slots, clusters that wrap the table end and table growth - '
               'are enumerated up to the stated depth for six flag combinations with and without destructor, and again at the default table size. After every operation the whole observable '
               'state (len, get/contains of every key, a full callback iteration, destructor log, outstanding allocations incl. duplicated keys) is compared with the monitor.',
    level_note='Depth-bounded (not a fixpoint): layouts needing longer histories are not reached. The tiny table needs the guarded hook LIBMODULE_VERIF_MAP_SIZE.')
HOOK_COMMITS.append('476a627')

META['C06'] = dict(
    engine='schedx', design_ref='4, 6/C06',
    technique='stateless model checking of the real thread pool: serialising scheduler over wrapped pthread operations, preemption-bounded exhaustive schedule enumeration (iterative context bounding) with happens-before state pruning; ASan and TSan as per-schedule oracles',
    level_text='For every small pool configuration (1-2 threads x 1-2 tasks, thorough 3x3; eager/LAZY/DETACHED/LAZY|DETACHED; wait_all on/off; main or two concurrent submitter threads; a task submitting to its own pool) '
               'every schedule of the real worker/submitter/free code at lock/unlock/cond/create/join/yield granularity within the preemption budget (2, thorough 3; +1 spurious wake-up) is executed; '
               'each execution is judged by task counters, free-return obligations, scheduler verdicts (deadlock, parked thread, use of a destroyed mutex/condition) and ASan; a TSan build of the same harness reports data races on each enumerated schedule.',
    level_note='Sequentially consistent interleavings; C11 atomics and plain memory accesses are not scheduling points (races on them are left to TSan); pthread primitives are modelled by the scheduler, not glibc.')
