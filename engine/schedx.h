/* schedx — serialising scheduler over wrapped pthread (and optionally syscall) points + preemption-bounded
 * exhaustive schedule enumeration.  Interface between the scheduler TU (engine/schedx.c, compiled WITHOUT
 * sanitizer instrumentation) and a harness (compiled with ASan or TSan). */
#ifndef VERIF_SCHEDX_H
#define VERIF_SCHEDX_H
#include <stdint.h>
#include <stddef.h>

/* ---- provided by the harness ---- */
extern const char *hx_name;
void hx_config(int argc, char **argv);
const char *hx_config_str(void);
void hx_main(void);            /* program of thread 0, runs under the scheduler */
void hx_final(void);           /* oracle evaluated at quiescence (all threads finished), thread 0 */

/* ---- provided by schedx ---- */
void sch_yield(void);                      /* explicit scheduling point inside harness code (task bodies) */
void sch_pass(void);                       /* fair yield inside a polling loop: other runnable threads go first, at no preemption cost */
__attribute__((format(printf, 3, 4), noreturn))
void sch_fail(const char *rule, const char *sig, const char *fmt, ...);
void sch_obs(uint64_t v);                  /* fold an observation into this execution's outcome hash */
void sch_obs_thread(uint64_t v);           /* fold into the calling thread's own observation hash (state hashing) */
int  sch_self(void);                       /* scheduler id of the calling thread (0 = main) */
long sch_clock(void);                      /* global step counter (stamps) */
int  sch_active(void);                     /* 1 while an execution is being scheduled */
extern int sch_create_fail_nth;            /* fault deviation: the n-th pthread_create of every execution fails with EAGAIN (0 = none) */
int  sch_main(int argc, char **argv);      /* explorer entry point */
#endif
