/* Ledger allocator installed through the library's memhook table.
 * Exact per-execution accounting: outstanding blocks, double free, foreign free.
 * Backed by the (sanitizer's) malloc so use-after-free is still caught by ASan. */
#ifndef VERIF_LEDGER_H
#define VERIF_LEDGER_H
#include <stdlib.h>
#include <string.h>
#include <stdint.h>
#include <stdio.h>

#ifndef LG_CAP
#define LG_CAP 16384            /* power of two; at most LG_CAP/2 simultaneously live blocks */
#endif
typedef struct { void *p; size_t sz; uint32_t seq; } lg_ent;
static lg_ent lg_tab[LG_CAP];
static int lg_live;
static uint32_t lg_seq;
static long lg_allocs, lg_frees;
static int lg_err;              /* 1 double/foreign free, sticky per execution */
static void *lg_err_ptr;
static void (*lg_free_hook)(void *p);   /* observation hook: called before a block is released */
static void (*lg_alloc_hook)(void *p, size_t sz);
static int lg_fail_after = -1;  /* fault injection: fail the Nth allocation from now (-1 = never) */

static inline size_t lg_h(void *p) { uintptr_t x = (uintptr_t)p; x ^= x >> 17; x *= 0x9E3779B97F4A7C15ull; return (x >> 20) & (LG_CAP - 1); }

static lg_ent *lg_find(void *p) {
    size_t i = lg_h(p);
    for (int n = 0; n < LG_CAP; n++, i = (i + 1) & (LG_CAP - 1)) {
        if (lg_tab[i].p == p) return &lg_tab[i];
        if (!lg_tab[i].p && lg_tab[i].seq == 0) return NULL;   /* never used: end of chain */
    }
    return NULL;
}
static void lg_add(void *p, size_t sz) {
    if (!p) return;
    if (lg_live >= LG_CAP / 2) { fprintf(stderr, "ledger full\n"); abort(); }
    size_t i = lg_h(p);
    while (lg_tab[i].p) i = (i + 1) & (LG_CAP - 1);
    lg_tab[i].p = p; lg_tab[i].sz = sz; lg_tab[i].seq = ++lg_seq ? lg_seq : ++lg_seq;
    lg_live++; lg_allocs++;
    if (lg_alloc_hook) lg_alloc_hook(p, sz);
}
static void *lg_malloc(size_t sz) {
    if (lg_fail_after == 0) { lg_fail_after = -1; return NULL; }
    if (lg_fail_after > 0) lg_fail_after--;
    void *p = malloc(sz ? sz : 1); lg_add(p, sz); return p;
}
static void *lg_calloc(size_t n, size_t sz) {
    if (lg_fail_after == 0) { lg_fail_after = -1; return NULL; }
    if (lg_fail_after > 0) lg_fail_after--;
    void *p = calloc(n ? n : 1, sz ? sz : 1); lg_add(p, n * sz); return p;
}
static void lg_free(void *p) {
    if (!p) return;
    lg_ent *e = lg_find(p);
    if (!e) { lg_err = 1; lg_err_ptr = p; return; }   /* double or foreign free: recorded, NOT passed on */
    if (lg_free_hook) lg_free_hook(p);
    e->p = NULL;             /* tombstone (seq stays non-zero) */
    lg_live--; lg_frees++;
    free(p);
}
static int lg_is_live(void *p) { return lg_find(p) != NULL; }
static size_t lg_size(void *p) { lg_ent *e = lg_find(p); return e ? e->sz : 0; }
/* drop everything (after a violation the execution is abandoned) */
static void lg_reset(void) {
    for (int i = 0; i < LG_CAP; i++) if (lg_tab[i].p) free(lg_tab[i].p);
    memset(lg_tab, 0, sizeof lg_tab);
    lg_live = 0; lg_err = 0; lg_err_ptr = NULL; lg_seq = 0; lg_fail_after = -1;
}
#endif
