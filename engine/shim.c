/* see shim.h */
#define _GNU_SOURCE
#include "shim.h"
#include <stdio.h>
#include <stdlib.h>
#include <string.h>
#include <errno.h>
#include <time.h>
#include <unistd.h>
#include <stdarg.h>
#include <signal.h>
#include <sys/epoll.h>
#include <sys/eventfd.h>
#include <sys/timerfd.h>
#include <sys/signalfd.h>
#include <sys/inotify.h>
#include <sys/syscall.h>

shim_fd_t shim_fd[SHIM_MAXFD];
int shim_bad_close; const char *shim_bad_close_why = "";
long shim_lib_opens, shim_lib_closes;
uint64_t shim_now_ns = 1000ull * 1000000000ull;
int shim_inject_write_eagain, shim_inject_epoll_errno, shim_epoll_calls, shim_epoll_blocking_calls, shim_inject_ctl_del, shim_inject_timerfd_fail;
int (*shim_env_turn)(void);
void (*shim_blocked)(void);

int __real_epoll_wait(int, struct epoll_event *, int, int);
int __real_epoll_ctl(int, int, int, struct epoll_event *);
int __real_epoll_create1(int);
int __real_eventfd(unsigned, int);
int __real_signalfd(int, const sigset_t *, int);
int __real_inotify_init1(int);
long __real_syscall(long, ...);

typedef struct { int fd, armed; uint64_t next, interval; } vtimer_t;
#define MAXVT 64
static vtimer_t VT[MAXVT];

static void lib_open(int fd, int kind) {
    if (fd < 0 || fd >= SHIM_MAXFD) return;
    memset(&shim_fd[fd], 0, sizeof shim_fd[fd]);
    shim_fd[fd].st = FD_LIB_OPEN; shim_fd[fd].kind = kind; shim_lib_opens++;
}
void shim_user_fd(int fd, int granted) {
    if (fd < 0 || fd >= SHIM_MAXFD) return;
    if (shim_fd[fd].st == FD_LIB_OPEN && !shim_fd[fd].user) return;       /* not ours to relabel */
    shim_fd[fd].st = FD_LIB_OPEN; shim_fd[fd].user = 1; shim_fd[fd].granted = granted; shim_fd[fd].kind = 0;
}
void shim_user_fd_forget(int fd) { if (fd >= 0 && fd < SHIM_MAXFD) memset(&shim_fd[fd], 0, sizeof shim_fd[fd]); }
int shim_open_lib_fds(void) { int n = 0; for (int i = 0; i < SHIM_MAXFD; i++) if (shim_fd[i].st == FD_LIB_OPEN && !shim_fd[i].user) n++; return n; }
void shim_reset(void) {
    shim_regex_live = 0;
    memset(shim_fd, 0, sizeof shim_fd); memset(VT, 0, sizeof VT);
    shim_bad_close = 0; shim_lib_opens = shim_lib_closes = 0; shim_now_ns = 1000ull * 1000000000ull;
    shim_inject_write_eagain = shim_inject_epoll_errno = shim_inject_ctl_del = shim_inject_timerfd_fail = 0; shim_epoll_calls = shim_epoll_blocking_calls = 0;
}

/* ---- time ---- */
int __wrap_clock_gettime(clockid_t clk, struct timespec *ts) {
    (void)clk; ts->tv_sec = shim_now_ns / 1000000000ull; ts->tv_nsec = shim_now_ns % 1000000000ull; return 0;
}
int __wrap_timerfd_create(int clockid, int flags) {
    (void)clockid; (void)flags;
    if (shim_inject_timerfd_fail) { shim_inject_timerfd_fail = 0; errno = EMFILE; return -1; }      /* deviation: the process is out of descriptors */
    int fd = __real_eventfd(0, EFD_NONBLOCK | EFD_CLOEXEC);
    if (fd < 0) return fd;
    lib_open(fd, FK_TIMER);
    for (int i = 0; i < MAXVT; i++) if (!VT[i].fd) { VT[i].fd = fd + 1; VT[i].armed = 0; return fd; }
    fprintf(stderr, "shim: too many timers\n"); abort();
}
int __wrap_timerfd_settime(int fd, int flags, const struct itimerspec *nv, struct itimerspec *ov) {
    (void)ov;
    for (int i = 0; i < MAXVT; i++) if (VT[i].fd == fd + 1) {
        uint64_t v = (uint64_t)nv->it_value.tv_sec * 1000000000ull + nv->it_value.tv_nsec;
        uint64_t iv = (uint64_t)nv->it_interval.tv_sec * 1000000000ull + nv->it_interval.tv_nsec;
        if (!v) { VT[i].armed = 0; return 0; }
        VT[i].armed = 1; VT[i].interval = iv;
        VT[i].next = (flags & TFD_TIMER_ABSTIME) ? v : shim_now_ns + v;
        return 0;
    }
    errno = EBADF; return -1;
}
void shim_advance(uint64_t dt) {
    shim_now_ns += dt;
    for (int i = 0; i < MAXVT; i++) if (VT[i].fd && VT[i].armed && VT[i].next <= shim_now_ns) {
        uint64_t n = 1;
        if (VT[i].interval) { n += (shim_now_ns - VT[i].next) / VT[i].interval; VT[i].next += n * VT[i].interval; }
        else VT[i].armed = 0;
        __real_write(VT[i].fd - 1, &n, sizeof n);
    }
}
int shim_timers_armed(void) { int n = 0; for (int i = 0; i < MAXVT; i++) if (VT[i].fd && VT[i].armed) n++; return n; }

/* ---- descriptors ---- */
int __wrap_close(int fd) {
    if (fd < 0 || fd >= SHIM_MAXFD) return __real_close(fd);      /* close(-1): harmless, not judged */
    shim_fd_t *e = &shim_fd[fd];
    if (e->st != FD_LIB_OPEN) {
        if (!shim_bad_close) { shim_bad_close = fd + 1; shim_bad_close_why = e->st == FD_LIB_CLOSED ? "descriptor already closed by the library (double close)" : "descriptor the library never opened and was never granted"; }
        return __real_close(fd);          /* let it happen (the property is about what the library DOES) */
    }
    if (e->user && !e->granted) {
        if (!shim_bad_close) { shim_bad_close = fd + 1; shim_bad_close_why = "user-supplied descriptor registered without the auto-close flag"; }
        e->st = FD_LIB_CLOSED; return __real_close(fd);
    }
    for (int i = 0; i < MAXVT; i++) if (VT[i].fd == fd + 1) memset(&VT[i], 0, sizeof VT[i]);
    e->st = FD_LIB_CLOSED; e->closes++; shim_lib_closes++;
    return __real_close(fd);
}
int __wrap_pipe(int fds[2]) { int r = __real_pipe(fds); if (r == 0) { lib_open(fds[0], FK_PIPE); lib_open(fds[1], FK_PIPE); } return r; }
int __wrap_dup(int fd) { int r = __real_dup(fd); if (r >= 0) { lib_open(r, FK_DUP); } return r; }
int __wrap_epoll_create1(int fl) { int r = __real_epoll_create1(fl); if (r >= 0) lib_open(r, FK_EPOLL); return r; }
int __wrap_eventfd(unsigned v, int fl) { int r = __real_eventfd(v, fl); if (r >= 0) lib_open(r, FK_EVENTFD); return r; }
int __wrap_signalfd(int fd, const sigset_t *m, int fl) { int r = __real_signalfd(fd, m, fl); if (r >= 0 && fd < 0) lib_open(r, FK_SIGNALFD); return r; }
int __wrap_inotify_init1(int fl) { int r = __real_inotify_init1(fl); if (r >= 0) lib_open(r, FK_INOTIFY); return r; }
long __wrap_syscall(long n, long a, long b, long c, long d, long e, long f) {
    long r = __real_syscall(n, a, b, c, d, e, f);
#ifdef __NR_pidfd_open
    if (n == __NR_pidfd_open && r >= 0) lib_open((int)r, FK_PIDFD);
#endif
    return r;
}

/* ---- polling / writing ---- */
int __wrap_epoll_wait(int epfd, struct epoll_event *ev, int max, int timeout) {
    shim_epoll_calls++;
    if (shim_inject_epoll_errno) { errno = shim_inject_epoll_errno; shim_inject_epoll_errno = 0; return -1; }
    if (timeout == 0) return __real_epoll_wait(epfd, ev, max, 0);
    shim_epoll_blocking_calls++;
    for (;;) {
        int r = __real_epoll_wait(epfd, ev, max, 0);
        if (r != 0) return r;
        if (shim_env_turn && shim_env_turn()) {
            if (shim_inject_epoll_errno) { errno = shim_inject_epoll_errno; shim_inject_epoll_errno = 0; return -1; }
            continue;
        }
        if (shim_blocked) shim_blocked();
        fprintf(stderr, "shim: epoll_wait would block forever\n"); _exit(96);
    }
}
ssize_t __wrap_write(int fd, const void *b, size_t n) {
    if (shim_inject_write_eagain && fd >= 0 && fd < SHIM_MAXFD && shim_fd[fd].st == FD_LIB_OPEN && shim_fd[fd].kind == FK_PIPE) {
        if (--shim_inject_write_eagain == 0) { errno = EAGAIN; return -1; }       /* the n-th next pipe write is refused */
    }
    return __real_write(fd, b, n);
}
ssize_t __wrap_read(int fd, void *b, size_t n) { return __real_read(fd, b, n); }

/* one-shot fault: the next EPOLL_CTL_DEL is carried out but reported as failed (e.g. the user already closed the descriptor) */
int __wrap_epoll_ctl(int epfd, int op, int fd, struct epoll_event *ev) {
    int r = __real_epoll_ctl(epfd, op, fd, ev);
    if (op == EPOLL_CTL_DEL && shim_inject_ctl_del) { shim_inject_ctl_del = 0; errno = ENOENT; return -1; }
    return r;
}

/* ---- compiled regular expressions (libc allocations the memhook ledger cannot see) ---- */
#include <regex.h>
int shim_regex_live;
int __real_regcomp(regex_t *re, const char *pat, int cflags);
void __real_regfree(regex_t *re);
int __wrap_regcomp(regex_t *re, const char *pat, int cflags) { int rc = __real_regcomp(re, pat, cflags); if (!rc) shim_regex_live++; return rc; }
void __wrap_regfree(regex_t *re) { shim_regex_live--; __real_regfree(re); }
