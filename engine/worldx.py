"""seqx (fork-per-execution flavour): breadth-first explicit-state search over operation histories of the
core world.  The C harness (harness/world.c) executes one history per forked child against the real library
and the reference monitor; this coordinator owns the frontier, the dedup set and the level structure.

Level d+1 = for every frontier history h and every op e enabled after h: execute h.e from scratch.
Dedup key = (128-bit hash of the canonical monitor state, last k op codes).  Every NEW key additionally gets the
probe suffixes (drain + obligations + teardown + ledgers).  Refused operations are executed and checked but not
expanded further (they must leave the state unchanged)."""
import subprocess, threading, time, json, os


class Worker:
    def __init__(self, exe, args, env):
        self.p = subprocess.Popen([exe] + args + ['--worker'], stdin=subprocess.PIPE, stdout=subprocess.PIPE, stderr=subprocess.DEVNULL,
                                  text=True, bufsize=1, env=env, errors='replace')

    def request(self, line):
        out = []
        try:
            self.p.stdin.write(line + '\n'); self.p.stdin.flush()
            while True:
                l = self.p.stdout.readline()
                if not l:
                    out.append('X worker died'); break
                l = l.rstrip('\n')
                if l == 'D':
                    break
                out.append(l)
        except (BrokenPipeError, OSError):
            out.append('X worker died')
        return out

    def close(self):
        try:
            self.p.stdin.write('Q\n'); self.p.stdin.flush(); self.p.stdin.close()
        except Exception:
            pass
        try:
            self.p.wait(timeout=5)
        except Exception:
            self.p.kill()


def explore(exe, harness_args, depth, deadline_s, k=1, nworkers=16, env=None, max_viol=400, max_states=None):
    t0 = time.time()
    workers = [Worker(exe, harness_args, env) for _ in range(nworkers)]
    viol = []
    seen = set()
    outcomes = set()
    stats = dict(states=0, transitions=0, executions=0, probe_runs=0, refused=0, capped=0, depth_complete=-1, depth_target=depth, k_last_ops=k)
    samples = []
    lock = threading.Lock()

    def run_chunks(reqs):
        """reqs: list of request lines; returns list of (req, [lines]) using all workers"""
        res = [None] * len(reqs)
        idx = [0]

        def body(w):
            while True:
                with lock:
                    i = idx[0]; idx[0] += 1
                if i >= len(reqs) or time.time() - t0 > deadline_s:
                    return
                res[i] = w.request(reqs[i])
        ths = [threading.Thread(target=body, args=(w,)) for w in workers]
        for t in ths: t.start()
        for t in ths: t.join()
        return res

    def handle_lines(lines, newstates):
        nviol = 0
        for l in lines or []:
            if l.startswith('V '):
                try:
                    viol.append(json.loads(l[2:]))
                except Exception:
                    viol.append(dict(rule='INTERNAL.parse', sig='INTERNAL.parse', detail=l[:300], hex='', history=[]))
                nviol += 1
            elif l.startswith('R '):
                f = l.split(' ')
                hx, key, ob, ndev, refused, en = f[1], f[2], f[3], int(f[4]), int(f[5]), f[6]
                outcomes.add(ob)
                if refused:
                    stats['refused'] += 1
                    continue
                tail = '' if hx == '-' else hx[-8 * k:]
                kk = key + ':' + tail
                if kk not in seen:
                    seen.add(kk)
                    newstates.append((hx, en))
            elif l.startswith('X'):
                viol.append(dict(rule='INTERNAL.worker', sig='INTERNAL.worker', detail=l, hex='', history=[]))
        return nviol

    try:
        # root
        new = []
        r = run_chunks(['E - ='])
        stats['executions'] += 1
        handle_lines(r[0], new)
        frontier = []
        if new:
            pr = run_chunks(['P ' + new[0][0]])
            stats['probe_runs'] += 1
            if not handle_lines(pr[0], []):
                frontier = new
        stats['states'] = len(seen)
        stats['depth_complete'] = 0
        for d in range(1, depth + 1):
            if not frontier:
                stats['fixpoint'] = True
                break
            if time.time() - t0 > deadline_s:
                stats['capped'] = 1; break
            reqs = ['E %s %s' % (hx, en) for hx, en in frontier if en != '-']
            ntrans = sum(len(en) // 8 for hx, en in frontier if en != '-')
            res = run_chunks(reqs)
            if any(x is None for x in res):
                stats['capped'] = 1
            new = []
            for lines in res:
                handle_lines(lines, new)
            done = sum(sum(1 for l in (lines or []) if l[:2] in ('R ', 'V ')) for lines in res)
            stats['transitions'] += done; stats['executions'] += done
            if stats['capped']:
                break
            # probes for new keys
            pres = run_chunks(['P ' + hx for hx, en in new])
            if any(x is None for x in pres):
                stats['capped'] = 1
            nxt = []
            for (hx, en), lines in zip(new, pres):
                stats['probe_runs'] += 1
                if lines is None:
                    continue
                if not handle_lines(lines, []):
                    nxt.append((hx, en))
            stats['executions'] += len(new) * 2
            stats['states'] = len(seen)
            if stats['capped']:
                break
            stats['depth_complete'] = d
            for hx, en in new[:: max(1, len(new) // 3)][:3]:
                if len(samples) < 8:
                    samples.append(hx)
            frontier = nxt
            if len(viol) >= max_viol:
                stats['capped'] = 2; break
            if max_states and len(seen) > max_states:
                stats['capped'] = 3; break
            if os.environ.get('VERIF_VERBOSE'):
                print('[worldx %s] depth %d: new %d frontier %d states %d trans %d viol %d t=%.0fs' % (' '.join(harness_args), d, len(new), len(nxt), len(seen), stats['transitions'], len(viol), time.time() - t0), flush=True)
    finally:
        for w in workers:
            w.close()
    stats['distinct_outcomes'] = len(outcomes)
    stats['wall_s'] = round(time.time() - t0, 2)
    stats['samples'] = samples
    stats['violations'] = len(viol)
    return viol, stats
