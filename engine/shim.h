/* Interposition layer ("shim") for the core world: linked with -Wl,--wrap=<sym>, so only calls made by the
 * library objects and by the harness are redirected (sanitizer runtimes and libc keep the real symbols).
 *   - virtual clock (clock_gettime), timers as clock-driven eventfds (timerfd_create / timerfd_settime)
 *   - descriptor ledger: every fd the LIBRARY opens/closes (the harness uses the __real_ symbols for its own fds)
 *   - epoll_wait: never blocks; environment turn for blocking loops; injected EINTR / EBADF
 *   - write: injected EAGAIN ("mailbox full")
 * Everything else is the real kernel (pipes, epoll, eventfd, signalfd, inotify, pidfd). */
#ifndef VERIF_SHIM_H
#define VERIF_SHIM_H
#include <stdint.h>
#include <sys/types.h>

#define SHIM_MAXFD 1024
enum { FD_NONE = 0, FD_LIB_OPEN, FD_LIB_CLOSED };
enum { FK_PIPE = 1, FK_EPOLL, FK_TIMER, FK_EVENTFD, FK_SIGNALFD, FK_INOTIFY, FK_PIDFD, FK_DUP };

typedef struct {
    int st;            /* FD_* */
    int kind;          /* FK_* */
    int user;          /* 1: descriptor supplied by the user (harness), library may close it only if AUTOCLOSE was granted */
    int granted;       /* user fd registered with AUTOCLOSE (or a DUP made by the library): library owns the close */
    int closes;        /* number of close() calls by the library on it while open */
} shim_fd_t;
extern shim_fd_t shim_fd[SHIM_MAXFD];
extern int shim_bad_close;         /* sticky: library closed an fd it did not own / that was not open; value = fd+1 */
extern const char *shim_bad_close_why;
extern long shim_lib_opens, shim_lib_closes;

/* virtual time */
extern uint64_t shim_now_ns;
void shim_advance(uint64_t dt_ns);  /* moves the clock; expires timers (writes the expiration count into their eventfd) */
int  shim_timers_armed(void);

/* user descriptors handed to the library */
void shim_user_fd(int fd, int autoclose_granted);   /* declare: fd belongs to the user */
void shim_user_fd_forget(int fd);

/* fault injection (one-shot) */
extern int shim_inject_write_eagain;    /* next library write() on a pipe fails with EAGAIN */
extern int shim_inject_epoll_errno;     /* next epoll_wait returns -1 with this errno */
extern int shim_regex_live;             /* regcomp() successes minus regfree() calls since shim_reset() */
extern int shim_inject_timerfd_fail;     /* next timerfd_create fails with EMFILE */
extern int shim_inject_ctl_del;         /* next EPOLL_CTL_DEL is reported as failed (ENOENT) */
extern int shim_epoll_calls, shim_epoll_blocking_calls;
/* environment turn: called from a BLOCKING epoll_wait (timeout != 0) when nothing is ready.
 * return 1 if the environment did something (poll again), 0 if nothing is left (=> blocked forever). */
extern int (*shim_env_turn)(void);
extern void (*shim_blocked)(void);      /* called when a blocking epoll_wait would block forever; must not return */

int  shim_open_lib_fds(void);           /* number of library-opened descriptors still open */
void shim_reset(void);

/* real symbols for the harness' own descriptors */
int __real_close(int fd);
int __real_pipe(int fds[2]);
ssize_t __real_write(int fd, const void *b, size_t n);
ssize_t __real_read(int fd, void *b, size_t n);
int __real_dup(int fd);
#endif
